/-
  C01 — Push programs evaluate to the state the instruction semantics prescribe.

  `Impl` = code-shaped model of the Rust (`Uec.Model.PushImpl`); `Spec` = the signature table
  `sigInt/sigFloat/sigBool/sigExec`, the documented action tables `whenTable/unlessTable/ifElseTable`
  and the all-or-nothing engine `Spec.apply` (`Uec.Model.PushSpec`).  The main theorem is the
  refinement; the clauses the property spells out are lemmas about the table's result functions and
  about the engine.
-/
import Uec.Lemmas.PushWF
import Uec.Lemmas.PushStraight
namespace Uec.Props.C01
open Uec

/-- **Refinement.**  In every state whose stacks are within their limits, every instruction of
    the full instruction set (all int/float/bool/exec/print instructions, literals, input variables,
    `Exec::Push` of a program) and every block does, in the code-shaped model, exactly what the
    semantics prescribe: same outcome kind, same error, same four stacks, same output. -/
theorem perform_eq_spec (p : Prog) (s : PState) (h : SizesOk s) :
    Impl.perform p s = Spec.perform p s := Uec.perform_eq_spec p s h

/-- …and hence whole runs: from a well-formed state the interpreter loop over the code-shaped
    steps and over the prescribed steps produce the same result, for every step limit. -/
theorem run_eq_spec (fuel : Nat) : ∀ (k : Nat) (s : PState), WF s →
    Impl.runLoopG Impl.perform fuel k s = Impl.runLoopG Spec.perform fuel k s := by
  induction fuel with
  | zero => intro k s _; rfl
  | succ n ih =>
    intro k s h
    unfold Impl.runLoopG
    split
    · rfl
    · rename_i p est hp
      have hw := Impl.wf_pop s p est h hp
      rw [← Uec.perform_eq_spec p _ hw.1.sizes]
      cases hout : Impl.perform p { s with exec := est } with
      | ok s1 => exact ih (k + 1) s1 (Impl.wf_next p _ s1 hw.1 hw.2 (by simp [hout, Outcome.nextState]))
      | recoverable s1 e => exact ih (k + 1) s1 (Impl.wf_next p _ s1 hw.1 hw.2 (by simp [hout, Outcome.nextState]))
      | fatal s1 e => rfl
      | panic => rfl

/-! ### The engine: operands from the tops, exactly those removed, exactly the result pushed -/

/-- **Operand discipline.** When a signature-driven instruction succeeds, each stack afterwards is
    `results ++ (old stack without its first `arity` elements)`; the results were computed from exactly
    the first `arity` elements of each stack (first operand = top); the output is extended by exactly
    the instruction's output; limits and inputs are unchanged. -/
theorem operand_discipline (sg : Spec.Sig) (s s' : PState) (h : Spec.apply sg s = .ok s') :
    ∃ p out,
      sg.eff s ⟨(Spec.tops s).exec.take sg.nExec, (Spec.tops s).int.take sg.nInt,
                (Spec.tops s).float.take sg.nFloat, (Spec.tops s).bool.take sg.nBool⟩ = .res p out ∧
      (Spec.tops s').exec = p.exec ++ (Spec.tops s).exec.drop sg.nExec ∧
      (Spec.tops s').int = p.int ++ (Spec.tops s).int.drop sg.nInt ∧
      (Spec.tops s').float = p.float ++ (Spec.tops s).float.drop sg.nFloat ∧
      (Spec.tops s').bool = p.bool ++ (Spec.tops s).bool.drop sg.nBool ∧
      s'.out = s.out ++ out := by
  unfold Spec.apply at h
  simp only [] at h
  repeat' split at h
  all_goals try (simp at h; done)
  rename_i hpre _ oe re h1 _ oi ri h2 _ of_ rf h3 _ ob rb h4 _ p out heff hroom
  obtain ⟨_, rfl, rfl⟩ := Spec.takeN_ok h1
  obtain ⟨_, rfl, rfl⟩ := Spec.takeN_ok h2
  obtain ⟨_, rfl, rfl⟩ := Spec.takeN_ok h3
  obtain ⟨_, rfl, rfl⟩ := Spec.takeN_ok h4
  simp only [Outcome.ok.injEq] at h
  subst h
  exact ⟨p, out, heff, by simp [Spec.tops, Spec.withTops], by simp [Spec.tops, Spec.withTops],
    by simp [Spec.tops, Spec.withTops], by simp [Spec.tops, Spec.withTops], rfl⟩

/-- Blocks unfold in order: performing a block with room puts its elements on the exec stack,
    first element on top, above what was there. -/
theorem block_unfold (ps : List Prog) (s : PState) (h : SizesOk s)
    (hroom : ps.length + s.exec.size ≤ s.exec.max) :
    ∃ s', Impl.perform (.block ps) s = .ok s' ∧ s'.exec.tops = ps ++ s.exec.tops ∧
      s'.int = s.int ∧ s'.float = s.float ∧ s'.bool = s.bool ∧ s'.out = s.out := by
  rw [Uec.perform_eq_spec _ s h]
  have hsz : (Spec.tops s).exec.length = s.exec.size := by simp [Spec.tops, Stack.tops, Stack.size]
  refine ⟨_, by simp only [Spec.perform]; rw [if_neg (by rw [hsz]; omega)], ?_⟩
  have e2 := Stack.eq_ofTop s.int
  have e3 := Stack.eq_ofTop s.float
  have e4 := Stack.eq_ofTop s.bool
  simp [Spec.withTops, Spec.tops]
  exact ⟨e2.symm, e3.symm, e4.symm⟩

/-- Front to back: one turn of the interpreter takes the top of the exec stack and performs it on the
    rest (`run_to_completion`'s loop, unfolded once). -/
theorem run_def (fuel k : Nat) (s : PState) (p : Prog) (est : Stack Prog) (hp : s.exec.pop = .ok (p, est)) :
    Impl.runLoop (fuel + 1) k s =
      match Impl.perform p { s with exec := est } with
      | .ok s' => Impl.runLoop fuel (k + 1) s'
      | .recoverable s' _ => Impl.runLoop fuel (k + 1) s'
      | .fatal s' e => .error s' e k
      | .panic => .panic := by
  simp only [Impl.runLoop]
  rw [Impl.runLoopG]
  simp only [hp]
  cases Impl.perform p { s with exec := est } <;> rfl

/-- A block on top of the exec stack costs one step and is replaced by its elements, first element
    on top: the interpreter then continues exactly as if the elements had been written in place of the
    block ("blocks unfold in order"). -/
theorem block_step (fuel k : Nat) (s : PState) (ps : List Prog) (est : Stack Prog) (h : SizesOk s)
    (hp : s.exec.pop = .ok (.block ps, est)) (hroom : ps.length + est.size ≤ est.max) :
    ∃ s', Impl.runLoop (fuel + 1) k s = Impl.runLoop fuel (k + 1) s' ∧
      s'.exec.tops = ps ++ est.tops ∧ s'.int = s.int ∧ s'.float = s.float ∧ s'.bool = s.bool ∧ s'.out = s.out := by
  have hs : SizesOk { s with exec := est } := sizesOk_pop s _ est h hp
  obtain ⟨s', hperf, he, hi, hf, hb, ho⟩ := block_unfold ps { s with exec := est } hs hroom
  refine ⟨s', ?_, he, hi, hf, hb, ho⟩
  rw [run_def fuel k s _ est hp, hperf]

/-- **Front to back with blocks unfolding in order, for whole programs of any size and nesting.**
    `ps` is any program built of instructions outside the exec family (all int/float/bool/print
    instructions, literals, input variables) and of arbitrarily nested blocks; it sits on top of the exec
    stack of a well-formed state (`exec = ps ++ rest`, first element on top), the exec stack has room for
    it to unfold (`nodes ps + |rest| ≤ max`) and at least `nodes ps` steps are left.  Then the code-shaped
    interpreter does exactly what the depth-first reading prescribes: the instructions of
    `flatList ps` — the program read depth first — are performed in that order on the integer, float and
    boolean stacks and the output (a recoverable failure skips the instruction), one step is used per
    instruction and per block, and
    * if no stack overflows, the run carries on with `exec = rest` from the state the flattened program
      produced (`runInstrs`), after exactly `nodes ps` steps;
    * otherwise it stops at the first overflow with that error, the data stacks and the output being
      what the flattened program had produced up to there. -/
theorem run_straightline (ps rest : List Prog) (fuel k : Nat) (s : PState) (hwf : WF s)
    (hst : Prog.straightList ps = true) (htops : s.exec.tops = ps ++ rest)
    (hroom : Prog.nodesList ps + rest.length ≤ s.exec.max) (hfuel : Prog.nodesList ps ≤ fuel) :
    let start := s.withExec (Stack.ofTop s.exec.max rest)
    (∀ s1, Spec.runInstrs (Prog.flatList ps) start = .ok s1 →
        Impl.runLoop fuel k s = Impl.runLoop (fuel - Prog.nodesList ps) (k + Prog.nodesList ps) s1) ∧
    (∀ s1 e, Spec.runInstrs (Prog.flatList ps) start = .fatal s1 e →
        ∃ st j, Impl.runLoop fuel k s = .error st e j ∧ k ≤ j ∧ j < k + Prog.nodesList ps ∧
          st.int = s1.int ∧ st.float = s1.float ∧ st.bool = s1.bool ∧ st.out = s1.out) ∧
    Spec.runInstrs (Prog.flatList ps) start ≠ .panic := by
  intro start
  obtain ⟨h1, h2, h3⟩ := specRun_straight (Prog.nodesList ps) ps rest fuel k s rfl hst htops hroom hfuel
  obtain ⟨wstart, hbps⟩ := WF.withRest s ps rest hwf htops
  have hbi : ∀ i ∈ Prog.flatList ps, (Prog.instr i).bound start.inputs = true :=
    Prog.flatList_bound s.inputs ps hbps
  have toImpl : ∀ f k' t, WF t → Impl.runLoop f k' t = Impl.runLoopG Spec.perform f k' t :=
    fun f k' t ht => run_eq_spec f k' t ht
  refine ⟨fun s1 hs1 => ?_, fun s1 e hs1 => ?_, fun hp => ?_⟩
  · have w1 := (Spec.runInstrs_wf _ start wstart hbi s1 hs1).1
    rw [toImpl _ _ s hwf, toImpl _ _ s1 w1]
    exact h1 s1 hs1
  · rw [toImpl _ _ s hwf]
    exact h2 s1 e hs1
  · -- a panic of the flattened run would be a panic of the interpreter, which a well-formed state excludes
    have := h3 hp
    rw [← toImpl _ _ s hwf] at this
    obtain ⟨t, p, est, ht, hpop, hpan⟩ :=
      Impl.runLoopG_panic Impl.perform WF Impl.wf_loop_next fuel k s hwf this
    exact Impl.wf_no_panic p _ (Impl.wf_pop t p est ht hpop).1 (Impl.wf_pop t p est ht hpop).2 hpan

/-! ### "In particular": the result functions of the table -/

theorem i64_bounds (x : Int64) : I64.minVal ≤ x.toInt ∧ x.toInt ≤ I64.maxVal := by
  have h1 := Int64.le_toInt x
  have h2 := Int64.toInt_lt x
  simp [I64.minVal, I64.maxVal] at *
  omega

/-- a checked result that fits is the mathematical result … -/
theorem checked_fits (op : IntI) (z : Int) (h : I64.minVal ≤ z ∧ z ≤ I64.maxVal) :
    ∃ v, I64.checked op z = .ok v ∧ v.toInt = z := by
  refine ⟨Int64.ofInt z, by simp [I64.checked, I64.fits, h.1, h.2], ?_⟩
  apply Int64.toInt_ofInt_of_le <;> simp [I64.minVal, I64.maxVal] at h <;> omega

/-- … and one that does not fit is the fault `IntOverflow` (the instruction is skipped, C02). -/
theorem checked_overflow (op : IntI) (z : Int) (h : z < I64.minVal ∨ I64.maxVal < z) :
    I64.checked op z = .error (.intOverflow op) := by
  have : I64.fits z = false := by
    simp only [I64.fits, Bool.and_eq_false_iff, decide_eq_false_iff_not]
    rcases h with h | h
    · left; omega
    · right; omega
  simp [I64.checked, this]

open I64 in
theorem two_pow_le_natAbs_pow (x : Int) (y : Nat) (hx : 2 ≤ x.natAbs) (hy : 64 ≤ y) :
    2 ^ 64 ≤ (x ^ y).natAbs := by
  rw [Int.natAbs_pow]
  calc 2 ^ 64 ≤ 2 ^ y := Nat.pow_le_pow_right (by omega) hy
    _ ≤ x.natAbs ^ y := Nat.pow_le_pow_left hx y

open I64 in
theorem neg_one_pow (n : Nat) : (-1 : Int) ^ n = if n % 2 = 0 then 1 else -1 := by
  induction n with
  | zero => simp
  | succ k ih =>
    rw [Int.pow_succ, ih]
    by_cases h : k % 2 = 0
    · have : (k + 1) % 2 ≠ 0 := by omega
      simp [h, this]
    · have : (k + 1) % 2 = 0 := by omega
      simp [h, this]

open I64 in
/-- `Power` is the mathematical power whenever the exponent is a `u32` and the result fits;
    otherwise the fault `IntOverflow` — the guarded definition of `I64.pow` never differs from it. -/
theorem pow_spec (op : IntI) (x y : Int) :
    I64.pow op x y =
      if 0 ≤ y ∧ y < 2 ^ 32 ∧ fits (x ^ y.toNat) = true then .ok (Int64.ofInt (x ^ y.toNat))
      else .error (.intOverflow op) := by
  unfold I64.pow
  have e32 : (2 : Int) ^ 32 = 4294967296 := by decide
  simp only [e32]
  by_cases hy : y < 0 ∨ y ≥ 4294967296
  · have : ¬ (0 ≤ y ∧ y < 4294967296 ∧ fits (x ^ y.toNat) = true) := by omega
    rw [if_pos hy, if_neg this]
  · have hy0 : 0 ≤ y := by omega
    have hy1 : y < 4294967296 := by omega
    simp only [hy, if_false]
    by_cases h0 : x = 0
    · subst h0
      by_cases hz : y = 0
      · subst hz; simp [fits, minVal, maxVal]
      · have : y.toNat ≠ 0 := by omega
        simp [hz, Int.zero_pow this, fits, minVal, maxVal, hy0, hy1]
    · by_cases h1 : x = 1
      · subst h1; simp [fits, minVal, maxVal, hy0, hy1, Int.one_pow]
      · by_cases hm : x = -1
        · subst hm
          simp only [h0, h1, if_false, if_true]
          rw [neg_one_pow]
          have e : (y % 2 = 0) ↔ (y.toNat % 2 = 0) := by omega
          by_cases hp : y % 2 = 0
          · have := e.mp hp; simp [hp, this, fits, minVal, maxVal, hy0, hy1]
          · have : ¬ y.toNat % 2 = 0 := fun h => hp (e.mpr h)
            simp [hp, this, fits, minVal, maxVal, hy0, hy1]
        · simp only [h0, h1, hm, if_false]
          have hx : 2 ≤ x.natAbs := by omega
          by_cases h64 : y ≥ 64
          · have hbig := two_pow_le_natAbs_pow x y.toNat hx (by omega)
            have : fits (x ^ y.toNat) = false := by
              unfold fits
              rw [Bool.and_eq_false_iff]
              simp only [minVal, maxVal]
              simp
              have hdis : x ^ y.toNat < -9223372036854775808 ∨ 9223372036854775807 < x ^ y.toNat := by omega
              rcases hdis with h | h
              · left; exact decide_eq_false (by omega)
              · right; exact decide_eq_false (by omega)
            simp [h64, this]
          · simp only [h64, if_false, checked]
            by_cases hf : fits (x ^ y.toNat) = true
            · simp [hf, hy0, hy1]
            · simp [hf]

/-- arithmetic is top-op-second: the table's entries, literally -/
theorem arith_table :
    Spec.sigInt .add = some (Spec.sInt2 fun x y => I64.checked .add (x.toInt + y.toInt)) ∧
    Spec.sigInt .subtract = some (Spec.sInt2 fun x y => I64.checked .subtract (x.toInt - y.toInt)) ∧
    Spec.sigInt .multiply = some (Spec.sInt2 fun x y => I64.checked .multiply (x.toInt * y.toInt)) ∧
    Spec.sigInt .protectedDivide = some (Spec.sInt2 (Spec.pdivI .protectedDivide)) ∧
    Spec.sigInt .mod = some (Spec.sInt2 (Spec.modI .mod)) ∧
    Spec.sigFloat .subtract = some (Spec.sFloat2 F64.sub) ∧
    Spec.sigFloat .protectedDivide = some (Spec.sFloat2 F64.pdiv) :=
  ⟨rfl, rfl, rfl, rfl, rfl, rfl, rfl⟩

/-- a successful binary integer instruction: `x` = top, `y` = second ↦ `f x y` replaces both -/
theorem int2_ok (f : Int64 → Int64 → Except Err Int64) (s : PState) (h : SizesOk s)
    (x y v : Int64) (r : List Int64) (ht : s.int.tops = x :: y :: r) (hf : f x y = .ok v) :
    Spec.apply (Spec.sInt2 f) s = .ok (Spec.withTops s { Spec.tops s with int := v :: r }) := by
  have hlen : r.length + 1 + 1 ≤ s.int.max := by
    have := h.int; simp [Stack.size] at this
    have e : s.int.values.length = (s.int.tops).length := by simp [Stack.tops]
    rw [e, ht] at this; simpa using this
  simp [Spec.apply, Spec.sInt2, Spec.takeN, Spec.tops, ht, hf, Spec.liftE, Except.map, Spec.noRoom,
    Spec.withTops, Uec.Nat.not_lt2]
  omega

/-- division and modulo by zero yield 1 and 0 -/
theorem div_mod_by_zero (op : IntI) (x : Int64) :
    Spec.pdivI op x 0 = .ok 1 ∧ Spec.modI op x 0 = .ok 0 := by
  simp [Spec.pdivI, Spec.modI]

/-- division truncates towards zero (Rust's `/`) when the divisor is not zero and the quotient fits -/
theorem div_nonzero (op : IntI) (x y : Int64) (hy : y ≠ 0) :
    Spec.pdivI op x y = I64.checked op (x.toInt.tdiv y.toInt) := by
  simp [Spec.pdivI, hy]

/-- negate / abs saturate: `i64::MIN ↦ i64::MAX`, otherwise the mathematical value -/
theorem negate_saturates (x : Int64) :
    (x.toInt = I64.minVal → Spec.negate x = Int64.ofInt I64.maxVal) ∧
    (x.toInt ≠ I64.minVal → (Spec.negate x).toInt = -x.toInt) := by
  refine ⟨fun h => by simp [Spec.negate, h], fun h => ?_⟩
  simp only [Spec.negate, h, if_false]
  have := i64_bounds x
  simp only [I64.minVal, I64.maxVal] at this h
  rw [Int64.toInt_neg, Int.bmod_eq_of_le_mul_two (by omega) (by omega)]

theorem abs_saturates (x : Int64) :
    (x.toInt = I64.minVal → Spec.absI x = Int64.ofInt I64.maxVal) ∧
    (x.toInt ≠ I64.minVal → (Spec.absI x).toInt = x.toInt.natAbs) := by
  refine ⟨fun h => by simp [Spec.absI, h], fun h => ?_⟩
  simp only [Spec.absI, h, if_false]
  have hb := i64_bounds x
  simp only [I64.minVal, I64.maxVal] at hb h
  by_cases hneg : x < 0
  · simp only [hneg, if_true]
    have : x.toInt < 0 := by simpa [Int64.lt_iff_toInt_lt] using hneg
    rw [Int64.toInt_neg, Int.bmod_eq_of_le_mul_two (by omega) (by omega)]
    omega
  · simp only [hneg, if_false]
    have : ¬ x.toInt < 0 := by simpa [Int64.lt_iff_toInt_lt] using hneg
    omega

/-- parity answers mathematically, for negative numbers too -/
theorem parity (x : Int64) :
    ((x.toInt.tmod 2 != 0) = true ↔ ¬ (2 : Int) ∣ x.toInt) ∧
    ((x.toInt.tmod 2 == 0) = true ↔ (2 : Int) ∣ x.toInt) := by
  constructor
  · simp only [bne_iff_ne, ne_eq]
    constructor
    · intro h hd; apply h; obtain ⟨k, hk⟩ := hd; rw [hk]; simp [Int.mul_tmod_right]
    · intro h h0; apply h; exact Int.dvd_of_tmod_eq_zero h0
  · simp only [beq_iff_eq]
    constructor
    · intro h0; exact Int.dvd_of_tmod_eq_zero h0
    · intro hd; obtain ⟨k, hk⟩ := hd; rw [hk]; simp [Int.mul_tmod_right]

/-- integer comparisons answer mathematically (on the integers the `i64`s denote) … -/
theorem int_comparisons (x y : Int64) :
    (decide (x < y) = decide (x.toInt < y.toInt)) ∧ (decide (x ≤ y) = decide (x.toInt ≤ y.toInt)) ∧
    ((x == y) = decide (x.toInt = y.toInt)) := by
  refine ⟨by simp [Int64.lt_iff_toInt_lt], by simp [Int64.le_iff_toInt_le], ?_⟩
  by_cases h : x = y
  · simp [h]
  · have : x.toInt ≠ y.toInt := fun he => h (Int64.toInt_inj.mp he)
    simp [h, this]

/-- … and every two-operand comparison consumes both operands and pushes one boolean (int and
    float alike): the table entries have arity 2 and a single boolean result. -/
theorem comparisons_consume_both :
    (∀ op ∈ [IntI.equal, .notEqual, .lessThan, .lessThanEqual, .greaterThan, .greaterThanEqual],
      ∃ f, Spec.sigInt op = some (Spec.sIntPred2 f)) ∧
    (∀ op ∈ [FloatI.equal, .notEqual, .lessThan, .lessThanOrEqual, .greaterThan, .greaterThanOrEqual],
      ∃ f, Spec.sigFloat op = some (Spec.sFloatPred2 f)) ∧
    (∀ f g, (Spec.sIntPred2 f).nInt = 2 ∧ (Spec.sFloatPred2 g).nFloat = 2) := by
  refine ⟨?_, ?_, fun f g => ⟨rfl, rfl⟩⟩
  · intro op hop; simp at hop; rcases hop with rfl | rfl | rfl | rfl | rfl | rfl <;> exact ⟨_, rfl⟩
  · intro op hop; simp at hop; rcases hop with rfl | rfl | rfl | rfl | rfl | rfl <;> exact ⟨_, rfl⟩

/-- a successful two-operand integer predicate: both operands gone, the answer on the bool stack -/
theorem intPred2_ok (f : Int64 → Int64 → Bool) (s : PState) (h : SizesOk s)
    (x y : Int64) (r : List Int64) (ht : s.int.tops = x :: y :: r) (hroom : s.bool.size < s.bool.max) :
    Spec.apply (Spec.sIntPred2 f) s =
      .ok (Spec.withTops s { Spec.tops s with int := r, bool := f x y :: s.bool.tops }) := by
  have hb : (s.bool.tops).length < s.bool.max := by simpa [Stack.tops, Stack.size] using hroom
  simp [Spec.apply, Spec.sIntPred2, Spec.takeN, Spec.tops, ht, Spec.noRoom, Spec.withTops, Uec.Nat.not_lt2]
  rw [if_neg (by omega), if_neg (by omega)]

/-- float division by ±0 yields 1.0 (whatever the dividend, NaN and infinities included) -/
theorem float_div_by_zero (x y : UInt64) (h : (Float.ofBits y == (0.0 : Float)) = true) :
    F64.pdiv x y = F64.canon 1.0 := by simp [F64.pdiv, h]

/-- the boolean connectives and the conversions, as the table has them (first operand = top) -/
theorem bool_table :
    Spec.sigBool .not = some (Spec.sBool1 fun x => !x) ∧
    Spec.sigBool .and = some (Spec.sBool2 fun x y => x && y) ∧
    Spec.sigBool .or = some (Spec.sBool2 fun x y => x || y) ∧
    Spec.sigBool .xor = some (Spec.sBool2 fun x y => x != y) ∧
    Spec.sigBool .implies = some (Spec.sBool2 fun x y => !x || y) :=
  ⟨rfl, rfl, rfl, rfl, rfl⟩

/-- min / max / clamp never fault and stay within their operands -/
theorem clamp_between (v lo hi : Int64) :
    let r := Impl.clampF v lo hi
    (r = v ∨ r = lo ∨ r = hi) ∧ (lo ≤ hi → lo ≤ r ∧ r ≤ hi) := by
  simp only [Impl.clampF]
  by_cases h : lo > hi
  · simp only [h, if_true]
    refine ⟨?_, fun hle => absurd hle (by simpa [Int64.not_le] using h)⟩
    split <;> (try split) <;> simp
  · simp only [h, if_false]
    have hle : lo ≤ hi := by simpa [Int64.not_lt] using h
    refine ⟨by split <;> (try split) <;> simp, fun _ => ?_⟩
    rw [Int64.le_iff_toInt_le] at hle
    split
    · rename_i h1; exact ⟨Int64.le_refl _, hle |> fun h => by rwa [← Int64.le_iff_toInt_le] at h⟩
    · rename_i h1
      split
      · rename_i h2
        exact ⟨by rwa [← Int64.le_iff_toInt_le] at hle, Int64.le_refl _⟩
      · rename_i h2
        constructor
        · simpa [Int64.not_lt] using h1
        · simpa [Int64.not_lt] using h2

/-- the float comparisons are those of `OrderedFloat`'s order, all derived from one `ge` -/
theorem float_comparisons (a b : UInt64) :
    F64.lt a b = !F64.ge a b ∧ F64.le a b = F64.ge b a ∧ F64.gt a b = !F64.ge b a ∧
    F64.ne a b = !F64.eq a b := ⟨rfl, rfl, rfl, rfl⟩

/-- the conditional instructions follow their documented action tables: the Impl's three-way
    matches equal the tables, row by row, in every state -/
theorem conditionals_follow_tables (s : PState) (h : SizesOk s) :
    Impl.perform (.instr (.exec .when)) s = Spec.cond1 Spec.whenTable s ∧
    Impl.perform (.instr (.exec .unless)) s = Spec.cond1 Spec.unlessTable s ∧
    Impl.perform (.instr (.exec .ifElse)) s = Spec.ifElse s := by
  refine ⟨?_, ?_, ?_⟩ <;> rw [Uec.perform_eq_spec _ s h] <;> rfl

/-! ### Non-vacuity -/
example : SizesOk (mkS 4 4 4 4 [] [3, 5] [] [] [] [] 10) := sizesOk_mkS.mpr (by simp)
/-- `[3, 5] Subtract` (3 on top) leaves `3 - 5 = -2`: top-op-second -/
example : Impl.perform (.instr (.int .subtract)) (mkS 4 4 4 4 [] [3, 5] [] [] [] [] 10)
    = .ok (mkS 4 4 4 4 [] [-2] [] [] [] [] 10) := by
  rw [Uec.perform_eq_spec _ _ (sizesOk_mkS.mpr (by simp))]
  simp [Spec.perform, Spec.performInstr, Spec.sigInt, Spec.apply, Spec.sInt2, Spec.takeN, Spec.tops, mkS,
    Spec.liftE, Except.map, Spec.noRoom, Spec.withTops, I64.checked, I64.fits, I64.minVal, I64.maxVal]

/-! `run_straightline` is not vacuous: a three-deep nested program with a failing instruction in it -/
section straightline
/-- `( 1 ( 2 Add ( Add ) ) IsOdd ) Noop` on exec; the second `Add` finds one operand only and is skipped -/
def nestedProg : List Prog :=
  [.block [.instr (.int (.push 1)), .block [.instr (.int (.push 2)), .instr (.int .add), .block [.instr (.int .add)]],
           .instr (.int .isOdd)]]
def nestedState : PState := mkS 10 4 4 4 (nestedProg ++ [.instr (.exec .noop)]) [] [] [] [] [] 100

example : WF nestedState ∧ Prog.straightList nestedProg = true ∧
    nestedState.exec.tops = nestedProg ++ [.instr (.exec .noop)] ∧
    Prog.nodesList nestedProg + [Prog.instr (.exec .noop)].length ≤ nestedState.exec.max ∧
    Prog.nodesList nestedProg = 8 ∧
    Prog.flatList nestedProg =
      [.int (.push 1), .int (.push 2), .int .add, .int .add, .int .isOdd] := by
  refine ⟨⟨sizesOk_mkS.mpr (by simp [nestedProg]), by decide⟩, by decide, ?_, by decide, by decide, by decide⟩
  simp [nestedState, mkS]
/-- the interpreter, run on the nested program, ends where the flattened instruction list says: `[3]` is
    odd, so `true` is on the boolean stack, after 8 steps for the program and 1 for the `Noop` -/
example : ((Impl.run nestedState).state?.map fun t => (t.int.tops, t.bool.tops, t.exec.size)) = some ([], [true], 0) ∧
    (Impl.run nestedState).steps? = some 9 := by decide
end straightline

end Uec.Props.C01
