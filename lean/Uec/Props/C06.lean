/-
  C06 — Selectors return a member of the given population or a documented error.

  Property theorems only.  The Impl model is `Sel.select` (`Uec.Model.Select`): every selector of
  ec-core (best, worst, random, tournament, lexicase), the statically typed weighted combinators
  (`Weighted`, `WeightedPair`), `DynWeighted`, `&S` and the type-erased `dyn DynSelector` forms, in
  any nesting.  A selection result is the *index* of the returned reference (the harness checks
  pointer identity).  "For all random streams" is `∀ r, Reach (σ.select hb pop) r → …`.
-/
import Uec.Lemmas.Select
namespace Uec.Props.C06
open Uec Uec.Rand Uec.SelLemmas

/-- Well-formed selector terms: tournament sizes are `NonZeroUsize` (≥ 1). -/
inductive WF : Sel → Prop where
  | best : WF .best
  | worst : WF .worst
  | random : WF .random
  | tournament {k : Nat} : 1 ≤ k → WF (.tournament k)
  | lexicase {n : Nat} : WF (.lexicase n)
  | probe {i : Nat} : WF (.probe i)
  | weighted {s : Sel} {w : Nat} : WF s → WF (.weighted s w)
  | pair {a b : Sel} : WF a → WF b → WF (.pair a b)
  | dyn {l : List (Sel × Nat)} : (∀ s w, (s, w) ∈ l → WF s) → WF (.dyn l)
  | byRef {s : Sel} : WF s → WF (.byRef s)
  | erased {s : Sel} : WF s → WF (.erased s)

/-- **The documented errors and their causes.**  `Cause pop σ e`: selector `σ` may report `e` on
    `pop` only for the reason its documentation gives. -/
inductive Cause (pop : List Ind) : Sel → SelErr → Prop where
  /-- `EmptyPopulation` from best / worst / random: the population is empty -/
  | bestEmpty : pop = [] → Cause pop .best .emptyPopulation
  | worstEmpty : pop = [] → Cause pop .worst .emptyPopulation
  | randomEmpty : pop = [] → Cause pop .random .emptyPopulation
  /-- a probe (caller-supplied selector) has nothing at its position -/
  | probeEmpty {i : Nat} : pop.length ≤ i → Cause pop (.probe i) .emptyPopulation
  /-- `TournamentSizeError{k, n}`: the tournament is larger than the population, payload exact -/
  | tournament {k : Nat} : pop.length < k → Cause pop (.tournament k) (.tournamentSize k pop.length)
  /-- lexicase on an empty population -/
  | lexEmpty {n : Nat} : pop = [] → Cause pop (.lexicase n) .lexEmpty
  /-- `MissingTestCase{total, idx}`: `idx` is one of the configured cases and some individual of
      the population has no result with that index -/
  | lexMissing {n c : Nat} : c < n → (∃ i, ∃ hi : i < pop.length, pop[i].results.length ≤ c) →
      Cause pop (.lexicase n) (.missingTestCase n c)
  /-- `ZeroWeight`: a `Weighted` of weight 0, a `WeightedPair` of total weight 0 -/
  | weightedZero {s : Sel} : Cause pop (.weighted s 0) .zeroWeight
  | pairZero {a b : Sel} : a.weight + b.weight = 0 → Cause pop (.pair a b) .zeroWeight
  /-- errors of the member a combination delegated to, wrapped with the path; the member has
      positive weight -/
  | weightedInner {s : Sel} {w : Nat} {e : SelErr} : 0 < w → Cause pop s e → Cause pop (.weighted s w) (.selector e)
  | pairA {a b : Sel} {e : SelErr} : 0 < a.weight → Cause pop a e → Cause pop (.pair a b) (.selector (.a e))
  | pairB {a b : Sel} {e : SelErr} : 0 < b.weight → Cause pop b e → Cause pop (.pair a b) (.selector (.b e))
  /-- `DynWeighted`: all weights zero / the `usize` total overflows / the chosen member's error -/
  | dynZero {l : List (Sel × Nat)} : (∀ s w, (s, w) ∈ l → w = 0) → Cause pop (.dyn l) (.dynWeight false)
  | dynOverflow {l : List (Sel × Nat)} : 2 ^ 64 ≤ (l.map (·.2)).sum → Cause pop (.dyn l) (.dynWeight true)
  | dynInner {l : List (Sel × Nat)} {s : Sel} {w : Nat} {e : SelErr} :
      (s, w) ∈ l → 0 < w → Cause pop s e → Cause pop (.dyn l) (.dynOther e)
  | byRef {s : Sel} {e : SelErr} : Cause pop s e → Cause pop (.byRef s) e
  | erased {s : Sel} {e : SelErr} : Cause pop s e → Cause pop (.erased s) (.boxed e)

/-- What a selection may result in. -/
def Good (pop : List Ind) (σ : Sel) : Except SelErr Nat → Prop
  | .ok i => i < pop.length
  | .error e => Cause pop σ e

private theorem good_mapErr {pop : List Ind} {σ τ : Sel} {f : SelErr → SelErr} {r : Except SelErr Nat}
    (h : Good pop σ r) (hf : ∀ e, Cause pop σ e → Cause pop τ (f e)) : Good pop τ (mapErr f r) := by
  cases r with
  | ok i => exact h
  | error e => exact hf e h

private theorem resultAt_none {pop : List Ind} {j c : Nat} (hj : j < pop.length)
    (h : resultAt pop j c = none) : pop[j].results.length ≤ c := by
  simp only [resultAt, getD_eq pop j hj] at h
  exact List.getElem?_eq_none_iff.mp h

mutual
/-- **Main theorem**: for every selector term (any nesting), every population (empty, singleton,
    duplicates, …), every configuration and every sequence of valid random answers, the result is
    the index of a member of the population, or a documented error with its documented cause.
    There is no third outcome: the `unreachable!` of the tournament and the fallback branches of
    the model are never taken. -/
theorem select_good (hb : Bool) (pop : List Ind) :
    ∀ (σ : Sel), WF σ → ∀ r, Reach (σ.select hb pop) r → Good pop σ r
  | .best, _, r, h => by
    cases hp : pop with
    | nil =>
      subst hp
      simp [Sel.select, iterMax] at h
      rw [reach_pure'.mp h]; exact .bestEmpty rfl
    | cons p ps =>
      obtain ⟨m, pre, post, hm, hl, _, _⟩ := iterMax_spec hb pop (List.range pop.length) (by simp [hp])
      simp only [Sel.select, hm] at h
      rw [reach_pure'.mp h, ← hp]
      have : m ∈ List.range pop.length := by rw [hl]; simp
      exact List.mem_range.mp this
  | .worst, _, r, h => by
    cases hp : pop with
    | nil =>
      subst hp
      simp [Sel.select, iterMin] at h
      rw [reach_pure'.mp h]; exact .worstEmpty rfl
    | cons p ps =>
      obtain ⟨m, pre, post, hm, hl, _, _⟩ := iterMin_spec hb pop (List.range pop.length) (by simp [hp])
      simp only [Sel.select, hm] at h
      rw [reach_pure'.mp h, ← hp]
      have : m ∈ List.range pop.length := by rw [hl]; simp
      exact List.mem_range.mp this
  | .random, _, r, h => by
    simp only [Sel.select, reach_ask] at h
    obtain ⟨ans, hv, hr⟩ := h
    cases ans with
    | nat i => rw [reach_pure'.mp hr]; simp only [Prim.valid] at hv; exact hv
    | none =>
      rw [reach_pure'.mp hr]
      simp only [Prim.valid] at hv
      exact .randomEmpty (List.eq_nil_of_length_eq_zero hv)
    | _ => simp [Prim.valid] at hv
  | .tournament k, hwf, r, h => by
    cases hwf with | tournament hk1 =>
    by_cases hk : pop.length < k
    · simp only [Sel.select, hk, if_true] at h
      rw [reach_pure'.mp h]; exact .tournament hk
    · simp only [Sel.select, hk, if_false, reach_ask] at h
      obtain ⟨ans, hv, hr⟩ := h
      cases ans with
      | idxs l =>
        simp only [Prim.valid] at hv
        obtain ⟨hlen, _, hlt⟩ := hv
        have hne : l ≠ [] := by intro h0; rw [h0] at hlen; simp at hlen; omega
        obtain ⟨m, pre, post, hm, hl, _, _⟩ := iterMax_spec hb pop l hne
        simp only [hm] at hr
        rw [reach_pure'.mp hr]
        exact hlt m (by rw [hl]; simp)
      | _ => simp [Prim.valid] at hv
  | .lexicase n, _, r, h => by
    simp only [Sel.select, reach_ask] at h
    obtain ⟨ans, hv, hr⟩ := h
    cases ans with
    | idxs order =>
      simp only [Prim.valid] at hv
      obtain ⟨_, _, hord⟩ := hv
      simp only at hr
      split at hr
      · rename_i e hloop
        rw [reach_pure'.mp hr]
        rcases lexLoop_err hb pop n order _ e hloop with ⟨he, h0⟩ | ⟨c, hc, he, j, hj, hn⟩
        · subst he
          have : pop.length = 0 := by simpa using congrArg List.length h0
          exact .lexEmpty (List.eq_nil_of_length_eq_zero this)
        · subst he
          have hj' := List.mem_range.mp hj
          exact .lexMissing (hord c hc) ⟨j, hj', resultAt_none hj' hn⟩
      · rename_i cands hloop
        obtain ⟨hsub, hne⟩ := lexLoop_sub hb pop n order _ cands hloop
        rw [reach_ask] at hr
        obtain ⟨ans2, hv2, hr2⟩ := hr
        cases ans2 with
        | idxs p =>
          simp only [Prim.valid] at hv2
          obtain ⟨hplen, _, hplt⟩ := hv2
          simp only at hr2
          cases p with
          | nil =>
            simp only [List.head?_nil] at hr2
            rw [reach_pure'.mp hr2]
            simp only [List.length_nil] at hplen
            have hc0 : cands = [] := List.eq_nil_of_length_eq_zero hplen.symm
            by_cases hp : pop = []
            · exact .lexEmpty hp
            · exact absurd hc0 (hne (by simpa using hp))
          | cons j ps =>
            simp only [List.head?_cons] at hr2
            have hj : j < cands.length := hplt j (by simp)
            rw [List.getElem?_eq_getElem hj] at hr2
            simp only at hr2
            rw [reach_pure'.mp hr2]
            exact List.mem_range.mp (hsub _ (List.getElem_mem hj))
        | _ => simp [Prim.valid] at hv2
    | _ => simp [Prim.valid] at hv
  | .probe i, _, r, h => by
    by_cases hi : i < pop.length
    · simp only [Sel.select, hi, if_true] at h
      rw [reach_pure'.mp h]; exact hi
    · simp only [Sel.select, hi, if_false] at h
      rw [reach_pure'.mp h]; exact .probeEmpty (by omega)
  | .weighted s w, hwf, r, h => by
    cases hwf with | weighted hs =>
    by_cases hw : w = 0
    · subst hw
      simp only [Sel.select, if_true] at h
      rw [reach_pure'.mp h]; exact .weightedZero
    · simp only [Sel.select, hw, if_false, reach_bind] at h
      obtain ⟨r', h1, h2⟩ := h
      rw [reach_pure'.mp h2]
      exact good_mapErr (select_good hb pop s hs r' h1) fun e he => .weightedInner (by omega) he
  | .pair a b, hwf, r, h => by
    cases hwf with | pair ha hb' =>
    by_cases hz : a.weight + b.weight = 0
    · simp only [Sel.select, hz, if_true] at h
      rw [reach_pure'.mp h]; exact .pairZero hz
    · simp only [Sel.select, hz, if_false, reach_ask] at h
      obtain ⟨ans, hv, hr⟩ := h
      cases ans with
      | bool t =>
        simp only [Prim.valid] at hv
        cases t with
        | true =>
          simp only [reach_bind] at hr
          obtain ⟨r', h1, h2⟩ := hr
          rw [reach_pure'.mp h2]
          exact good_mapErr (select_good hb pop a ha r' h1) fun e he => .pairA (hv.1 rfl) he
        | false =>
          simp only [reach_bind] at hr
          obtain ⟨r', h1, h2⟩ := hr
          rw [reach_pure'.mp h2]
          exact good_mapErr (select_good hb pop b hb' r' h1) fun e he => .pairB (by have := hv.2 rfl; omega) he
      | _ => simp [Prim.valid] at hv
  | .dyn l, hwf, r, h => by
    cases hwf with | dyn hl =>
    simp only [Sel.select, reach_ask] at h
    obtain ⟨ans, hv, hr⟩ := h
    cases ans with
    | nat i =>
      simp only [Prim.valid] at hv
      obtain ⟨hi, hpos⟩ := hv
      have := selectNth_good hb pop l hl i (by simpa using hi) (by simpa using hpos) r hr
      cases r with
      | ok j => exact this
      | error e =>
        obtain ⟨s, w, e', hmem, hw, he, hc⟩ := this
        subst he
        exact .dynInner hmem hw hc
    | err =>
      rw [reach_pure'.mp hr]
      simp only [Prim.valid] at hv
      by_cases ho : 2 ^ 64 ≤ (l.map (·.2)).sum
      · simp only [ho, decide_true]; exact .dynOverflow ho
      · simp only [ho, decide_false]
        rcases hv with hv | hv
        · refine .dynZero fun s w hm => ?_
          have := List.all_eq_true.mp hv w (List.mem_map.mpr ⟨(s, w), hm, rfl⟩)
          simpa using this
        · exact absurd hv ho
    | _ => simp [Prim.valid] at hv
  | .byRef s, hwf, r, h => by
    cases hwf with | byRef hs =>
    simp only [Sel.select] at h
    have := select_good hb pop s hs r h
    cases r with
    | ok i => exact this
    | error e => exact .byRef this
  | .erased s, hwf, r, h => by
    cases hwf with | erased hs =>
    simp only [Sel.select, reach_bind] at h
    obtain ⟨r', h1, h2⟩ := h
    rw [reach_pure'.mp h2]
    exact good_mapErr (select_good hb pop s hs r' h1) fun e he => .erased he

/-- the `i`-th member of a `DynWeighted` (of positive weight): a member, or its error boxed -/
theorem selectNth_good (hb : Bool) (pop : List Ind) :
    ∀ (l : List (Sel × Nat)), (∀ s w, (s, w) ∈ l → WF s) → ∀ (i : Nat) (hi : i < l.length), 0 < (l[i]).2 →
      ∀ r, Reach (Sel.selectNth hb pop l i) r →
        match r with
        | .ok j => j < pop.length
        | .error e => ∃ s w e', (s, w) ∈ l ∧ 0 < w ∧ e = .dynOther e' ∧ Cause pop s e'
  | [], _, i, hi, _, _, _ => by simp at hi
  | (s, w) :: rest, hl, 0, _, hpos, r, h => by
    simp only [Sel.selectNth, reach_bind] at h
    obtain ⟨r', h1, h2⟩ := h
    rw [reach_pure'.mp h2]
    have := select_good hb pop s (hl s w (by simp)) r' h1
    cases r' with
    | ok j => exact this
    | error e => exact ⟨s, w, e, by simp, by simpa using hpos, rfl, this⟩
  | (s, w) :: rest, hl, i + 1, hi, hpos, r, h => by
    simp only [Sel.selectNth] at h
    have := selectNth_good hb pop rest (fun s' w' hm => hl s' w' (List.mem_cons_of_mem _ hm)) i
      (by simpa using hi) (by simpa using hpos) r h
    cases r with
    | ok j => exact this
    | error e =>
      obtain ⟨s', w', e', hm, hw, he, hc⟩ := this
      exact ⟨s', w', e', List.mem_cons_of_mem _ hm, hw, he, hc⟩
end

/-! ### Corollaries, in the words of the property -/

/-- **Membership**: a successful selection returns (the index of) an individual actually present
    in the population it was given. -/
theorem select_member (hb : Bool) (pop : List Ind) (σ : Sel) (hσ : WF σ) (i : Nat)
    (h : Reach (σ.select hb pop) (.ok i)) : i < pop.length :=
  select_good hb pop σ hσ _ h

/-- **Documented errors only**, each for its documented reason. -/
theorem select_error_documented (hb : Bool) (pop : List Ind) (σ : Sel) (hσ : WF σ) (e : SelErr)
    (h : Reach (σ.select hb pop) (.error e)) : Cause pop σ e :=
  select_good hb pop σ hσ _ h

/-- On the empty population every selector reports an error (there is nothing it could return). -/
theorem empty_population_errors (hb : Bool) (σ : Sel) (hσ : WF σ) (r : Except SelErr Nat)
    (h : Reach (σ.select hb []) r) : ∃ e, r = .error e := by
  cases r with
  | error e => exact ⟨e, rfl⟩
  | ok i => exact absurd (select_member hb [] σ hσ i h) (by simp)

/-- The tournament reports `TournamentSize(k, n)` and nothing else, exactly when `k > n`; in
    particular its `unreachable!` is unreachable. -/
theorem tournament_error_iff (hb : Bool) (pop : List Ind) (k : Nat) (hk : 1 ≤ k) (r : Except SelErr Nat)
    (h : Reach ((Sel.tournament k).select hb pop) r) :
    (pop.length < k ∧ r = .error (.tournamentSize k pop.length)) ∨ (k ≤ pop.length ∧ ∃ i, i < pop.length ∧ r = .ok i) := by
  have hg := select_good hb pop _ (.tournament hk) r h
  cases r with
  | ok i =>
    right
    refine ⟨?_, i, hg, rfl⟩
    by_cases hlt : pop.length < k
    · simp only [Sel.select, hlt, if_true] at h; cases reach_pure'.mp h
    · omega
  | error e => left; cases hg with | tournament hlt => exact ⟨hlt, rfl⟩

/-- Lexicase never reports a missing test case when every individual has the configured number of
    results, and then fails only on the empty population. -/
theorem lexicase_complete (hb : Bool) (pop : List Ind) (n : Nat)
    (hall : ∀ i (hi : i < pop.length), n ≤ pop[i].results.length) (r : Except SelErr Nat)
    (h : Reach ((Sel.lexicase n).select hb pop) r) :
    (pop = [] ∧ r = .error .lexEmpty) ∨ ∃ i, i < pop.length ∧ r = .ok i := by
  have hg := select_good hb pop _ .lexicase r h
  cases r with
  | ok i => exact .inr ⟨i, hg, rfl⟩
  | error e =>
    cases hg with
    | lexEmpty h0 => exact .inl ⟨h0, rfl⟩
    | lexMissing hc hex =>
      obtain ⟨i, hi, hlen⟩ := hex
      have := hall i hi
      omega

/-- A combination never reaches a member of weight zero: an error attributed to member `a` of a
    pair implies `a` has positive weight (likewise `b`, and the members of a `DynWeighted`). -/
theorem pair_error_member_positive (hb : Bool) (pop : List Ind) (a b : Sel) (hσ : WF (.pair a b)) (e : SelErr)
    (h : Reach ((Sel.pair a b).select hb pop) (.error (.selector (.a e)))) : 0 < a.weight := by
  have := select_error_documented hb pop _ hσ _ h
  cases this with | pairA hw _ => exact hw

/-! ### Totality -/

private theorem ex_bind {m : Rand (Except SelErr Nat)} {f : SelErr → SelErr}
    (h : ∃ r, Reach m r) : ∃ r, Reach (Rand.bind m fun r => Pure.pure (mapErr f r)) r := by
  obtain ⟨r, hr⟩ := h
  exact ⟨_, reach_bind.mpr ⟨r, hr, .pure _⟩⟩

private theorem ex_ask {α : Type} {p : Prim} {k : Ans → Rand α} (ans : Ans) (hv : p.valid ans)
    (h : ∃ r, Reach (k ans) r) : ∃ r, Reach (.ask p k) r := by
  obtain ⟨r, hr⟩ := h; exact ⟨r, .ask hv hr⟩

private theorem ex_pure {α : Type} (a : α) : ∃ r, Reach (Pure.pure a : Rand α) r := ⟨a, .pure a⟩

mutual
/-- **Totality**: every selector term has, on every population, a run with valid random answers
    that ends in a result — `Reach` is never vacuous, the model has no stuck or panicking state. -/
theorem select_total (hb : Bool) (pop : List Ind) : ∀ σ : Sel, ∃ r, Reach (σ.select hb pop) r
  | .best => by simp only [Sel.select]; split <;> exact ex_pure _
  | .worst => by simp only [Sel.select]; split <;> exact ex_pure _
  | .random => by
    simp only [Sel.select]
    by_cases h : pop.length = 0
    · exact ex_ask .none (by simpa [Prim.valid] using h) (ex_pure _)
    · exact ex_ask (.nat 0) (by simp only [Prim.valid]; omega) (ex_pure _)
  | .tournament k => by
    simp only [Sel.select]
    split
    · exact ex_pure _
    · rename_i h
      refine ex_ask (.idxs (List.range k)) ?_ ?_
      · simp only [Prim.valid, List.length_range]
        exact ⟨by omega, List.nodup_range, fun i hi => by have := List.mem_range.mp hi; omega⟩
      · simp only; split <;> exact ex_pure _
  | .lexicase n => by
    simp only [Sel.select]
    refine ex_ask (.idxs (List.range n)) ?_ ?_
    · simp only [Prim.valid, List.length_range]
      exact ⟨trivial, List.nodup_range, fun i hi => List.mem_range.mp hi⟩
    · simp only
      split
      · exact ex_pure _
      · rename_i cands _
        refine ex_ask (.idxs (List.range cands.length)) ?_ ?_
        · simp only [Prim.valid, List.length_range]
          exact ⟨trivial, List.nodup_range, fun i hi => List.mem_range.mp hi⟩
        · simp only
          split
          · split <;> exact ex_pure _
          · exact ex_pure _
  | .probe i => by simp only [Sel.select]; split <;> exact ex_pure _
  | .weighted s w => by
    simp only [Sel.select]
    split
    · exact ex_pure _
    · exact ex_bind (select_total hb pop s)
  | .pair a b => by
    simp only [Sel.select]
    split
    · exact ex_pure _
    · rename_i hz
      by_cases ha : 0 < a.weight
      · exact ex_ask (.bool true) (by simp [Prim.valid, ha]) (ex_bind (select_total hb pop a))
      · exact ex_ask (.bool false) (by simp only [Prim.valid]; exact ⟨by simp, fun _ => by omega⟩) (ex_bind (select_total hb pop b))
  | .dyn l => by
    simp only [Sel.select]
    by_cases hex : ∃ i, ∃ hi : i < l.length, 0 < (l[i]).2
    · obtain ⟨i, hi, hpos⟩ := hex
      exact ex_ask (.nat i) (by simp only [Prim.valid]; exact ⟨by simpa using hi, by simpa using hpos⟩) (selectNth_total hb pop l i hi)
    · refine ex_ask .err ?_ (ex_pure _)
      simp only [Prim.valid]
      left
      rw [List.all_eq_true]
      intro w hw
      obtain ⟨⟨s, w'⟩, hm, rfl⟩ := List.mem_map.mp hw
      obtain ⟨i, hi, hli⟩ := List.getElem_of_mem hm
      have : ¬ 0 < (l[i]).2 := fun h => hex ⟨i, hi, h⟩
      rw [hli] at this
      simp only at this
      simp; omega
  | .byRef s => by simp only [Sel.select]; exact select_total hb pop s
  | .erased s => by simp only [Sel.select]; exact ex_bind (select_total hb pop s)

theorem selectNth_total (hb : Bool) (pop : List Ind) :
    ∀ (l : List (Sel × Nat)) (i : Nat), i < l.length → ∃ r, Reach (Sel.selectNth hb pop l i) r
  | [], _, hi => by simp at hi
  | (s, _) :: _, 0, _ => by simp only [Sel.selectNth]; exact ex_bind (select_total hb pop s)
  | _ :: rest, i + 1, hi => by
    simp only [Sel.selectNth]; exact selectNth_total hb pop rest i (by simpa using hi)
end

/-! ### Non-vacuity -/

/-- a nested term mixing every constructor is well-formed … -/
def exampleSel : Sel :=
  .byRef (.erased (.pair (.weighted (.pair (.weighted .best 1) (.weighted (.tournament 2) 0)) 3)
    (.weighted (.dyn [(.lexicase 2, 2), (.worst, 0), (.dyn [(.random, 1)], 5)]) 4)))

example : WF exampleSel := by
  refine .byRef (.erased (.pair (.weighted (.pair (.weighted .best) (.weighted (.tournament (by omega)))))
    (.weighted (.dyn ?_))))
  intro s w hm
  simp only [List.mem_cons, Prod.mk.injEq, List.not_mem_nil, or_false] at hm
  rcases hm with ⟨rfl, _⟩ | ⟨rfl, _⟩ | ⟨rfl, _⟩
  · exact .lexicase
  · exact .worst
  · refine .dyn ?_
    intro s w hm
    simp only [List.mem_cons, Prod.mk.injEq, List.not_mem_nil, or_false] at hm
    obtain ⟨rfl, _⟩ := hm
    exact .random

/-- … and selects (here: the first branch twice, `Best` returns the last maximum) -/
example : Reach (exampleSel.select true [⟨1, [0, 1]⟩, ⟨2, [1, 1]⟩, ⟨2, [0, 0]⟩]) (.ok 2) := by
  simp only [exampleSel, Sel.select, Sel.weight]
  refine .ask (ans := .bool true) (by simp [Prim.valid]) ?_
  simp only [Rand.bind]
  refine .ask (ans := .bool true) (by simp [Prim.valid]) ?_
  simp [Rand.bind, iterMax, cmpAt, Ind.cmp, List.range, List.range.loop, mapErr]
  exact .pure _

/-- an error with its full path: the empty population through a weighted pair inside a box -/
example : Reach ((Sel.erased (.pair (.weighted .best 0) (.weighted .worst 2))).select true [])
    (.error (.boxed (.selector (.b (.selector .emptyPopulation))))) := by
  simp only [Sel.select, Sel.weight]
  refine .ask (ans := .bool false) (by simp [Prim.valid]) ?_
  simp [Rand.bind, iterMin, mapErr]
  exact .pure _

end Uec.Props.C06
