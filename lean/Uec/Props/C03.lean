/-
  C03 — Program evaluation is total and bounded; only stack overflow aborts it.

  `Impl.run` / `Impl.runLoop` is the code-shaped model of `run_to_completion` (pop exec, perform,
  `try_recover`, count).  `WF s` = every stack within its limit and every input variable mentioned on
  the exec stack bound — the state the builder produces.
-/
import Uec.Lemmas.PushWF
namespace Uec.Props.C03
open Uec

/-- **Totality.** `Impl.run` is a total function: Lean accepted `runLoopG` by structural recursion
    on the remaining step budget — no `partial`, no fuel beyond the configured limit.  Every state has
    a result. -/
theorem run_total (s : PState) : ∃ r, Impl.run s = r := ⟨_, rfl⟩

/-- **Bounded.** A run performs at most the configured number of instruction steps. -/
theorem steps_le (s : PState) (k : Nat) (h : (Impl.run s).steps? = some k) : k ≤ s.maxSteps := by
  have := Impl.runLoopG_steps Impl.perform s.maxSteps 0 s k h
  omega

/-- **Sizes never exceed the limits** — in the final state *and in every intermediate state*: the
    statement holds for every step budget `fuel`, and the state after `k` steps of a run is the final
    state of the same run with budget `k`.  Stack limits and step limits from 0 upwards. -/
theorem run_WF (fuel : Nat) (s s' : PState) (h : WF s)
    (hr : (Impl.runLoop fuel 0 s).state? = some s') : WF s' :=
  Impl.runLoopG_inv Impl.perform WF Impl.wf_loop_pop Impl.wf_loop_next Impl.wf_loop_fatal fuel 0 s h s' hr

/-- **Intermediate states are final states of smaller limits.** A run with step limit `a + b` is the run
    with limit `a`, continued for `b` more steps from where it stopped (a run that ended early stays
    ended).  So everything proved about final states for every limit - sizes, well-formedness, no panic,
    only overflow aborts - holds after every single step of every run, and running one program with the
    limits `0, 1, 2, …` (what the correspondence check does) shows every intermediate state of the real loop. -/
theorem run_prefix (a b : Nat) (s : PState) :
    Impl.runLoop (a + b) 0 s =
      match Impl.runLoop a 0 s with
      | .done s' k' => Impl.runLoop b k' s'
      | r => r :=
  Impl.runLoopG_add Impl.perform b a 0 s

/-- **Evaluation never stops early.** A run that ends normally having counted fewer steps than the limit
    ended because the exec stack was empty — the only `break` of `run_to_completion`; in all other normal
    endings the step limit was reached exactly. -/
theorem done_early_exec_empty (s s' : PState) (k : Nat) (hr : Impl.run s = .done s' k)
    (hlt : k < s.maxSteps) : ∃ e, s'.exec.pop = .error e :=
  Impl.runLoopG_done_early Impl.perform s.maxSteps 0 s s' k hr (by omega)

/-- …so a normal ending is *either* "exec stack empty" *or* "exactly `maxSteps` steps were performed". -/
theorem done_dichotomy (s s' : PState) (k : Nat) (hr : Impl.run s = .done s' k) :
    (∃ e, s'.exec.pop = .error e) ∨ k = s.maxSteps := by
  have hle : k ≤ s.maxSteps := steps_le s k (by rw [hr]; rfl)
  rcases Nat.lt_or_ge k s.maxSteps with h | h
  · exact .inl (done_early_exec_empty s s' k hr h)
  · exact .inr (by omega)

/-- **A finished machine stays finished**: evaluating a state whose exec stack is empty returns that very
    state after 0 steps (so running a completed evaluation again changes and counts nothing). -/
theorem run_finished (s : PState) (e : StackErr) (he : s.exec.pop = .error e) :
    Impl.run s = .done s 0 :=
  Impl.runLoopG_empty Impl.perform s.maxSteps 0 s e he

theorem run_sizes (s s' : PState) (h : WF s) (hr : (Impl.run s).state? = some s') : SizesOk s' :=
  (run_WF s.maxSteps s s' h hr).sizes

/-- **Only stack overflow aborts.** If evaluation ends with an error, the error is a stack overflow,
    raised by an instruction whose destination had no room, in a well-formed state of the trace; the
    state returned is that state, untouched.  Missing operands and arithmetic faults never abort. -/
theorem abort_only_overflow (fuel : Nat) (s s' : PState) (e : Err) (k : Nat) (h : WF s)
    (hr : Impl.runLoop fuel 0 s = .error s' e k) :
    e = .stack .overflow ∧ ∃ p, WF s' ∧ Impl.perform p s' = .fatal s' e := by
  obtain ⟨t, p, ht, hf⟩ := Impl.runLoopG_error Impl.perform WF Impl.wf_loop_pop Impl.wf_loop_next fuel 0 s h s' e k hr
  obtain ⟨rfl, he⟩ := Impl.wf_fatal p t s' e ht hf
  exact ⟨he, p, ht, hf⟩

/-- **Never panics**, provided every input variable the program mentions is bound (part of `WF`). -/
theorem no_panic (fuel : Nat) (s : PState) (h : WF s) : Impl.runLoop fuel 0 s ≠ .panic := by
  intro hp
  obtain ⟨t, p, est, ht, hpop, hpan⟩ := Impl.runLoopG_panic Impl.perform WF Impl.wf_loop_next fuel 0 s h hp
  exact Impl.wf_no_panic p _ (Impl.wf_pop t p est ht hpop).1 (Impl.wf_pop t p est ht hpop).2 hpan

/-- …and the binding proviso is exactly what is needed: the only panic of a single step is an
    unbound input variable. -/
theorem panic_only_unbound (p : Prog) (s : PState) (h : SizesOk s) (hp : Impl.perform p s = .panic) :
    ∃ name, p = .instr (.inputVar name) ∧ Impl.lookup s.inputs name = none := by
  rw [perform_eq_spec p s h] at hp
  rcases Spec.perform_good_or_panic p s with ⟨_, hnp⟩ | ⟨_, hu⟩
  · exact absurd hp hnp
  · exact hu

/-! ### Witnesses: looping, growing and nested programs run to both endings -/
section witnesses
open Stack

/-- the error a run ended with, if any -/
def _root_.Uec.Impl.RunResult.err? : Impl.RunResult → Option Err
  | .error _ e _ => some e
  | _ => none

def dupBlock : Prog := .instr (.exec .dupBlock)
def push1 : Prog := .instr (.int (.push 1))
/-- `DupBlock { 1 DupBlock }`: duplicates its own body for ever, pushing a 1 per round -/
def replicator : List Prog := [dupBlock, .block [push1, dupBlock]]

def start (execMax intMax steps : Nat) (prog : List Prog) : PState :=
  mkS execMax intMax 4 4 prog [] [] [] [] [] steps

/-- a block that unfolds into more elements than the exec stack can hold -/
def grower : List Prog := [push1, .block [push1, push1, push1, push1, push1, push1]]
/-- three levels of nesting -/
def nested : List Prog := [.block [push1, .block [push1, .block [push1, .instr (.int .add)], .instr (.int .add)]]]

/-- the replicator is stopped by the step limit (exec limit roomy) … -/
example : (Impl.run (start 1000 1000 12 replicator)).steps? = some 12 := by decide
/-- … or, with a small integer stack, by the overflow of that stack (the only kind of abort) -/
example : (Impl.run (start 1000 2 100 replicator)).err? = some (.stack .overflow) := by decide
/-- the growing program overflows the exec stack (after one successful step) -/
example : (Impl.run (start 4 100 100 grower)).err? = some (.stack .overflow) := by decide
/-- the nested program runs to completion: 1 + 1 + 1 -/
example : ((Impl.run (start 10 10 100 nested)).state?.map (·.int.tops)) = some [3] ∧
    (Impl.run (start 10 10 100 nested)).err? = none := by decide
/-- the nested program ends early (8 steps of 100) with the exec stack empty: `done_early_exec_empty` bites -/
example : (Impl.run (start 10 10 100 nested)).steps? = some 8 ∧
    ((Impl.run (start 10 10 100 nested)).state?.map (·.exec.size)) = some 0 := by decide
/-- step limit 0: nothing happens -/
example : (Impl.run (start 10 10 0 nested)).steps? = some 0 := by decide
/-- the starting states are well-formed -/
example : WF (start 1000 1000 12 replicator) :=
  ⟨sizesOk_mkS.mpr (by simp [replicator]), by simp [start, mkS, replicator, dupBlock, push1, Prog.boundList, Prog.bound, Stack.ofTop_tops]⟩

end witnesses
end Uec.Props.C03
