/-
  C04 — The bounded stack is a faithful, all-or-nothing LIFO.

  Property theorems only; helper lemmas are in `Uec.Lemmas.Stack`.
  `Stack` is the code-shaped Impl model of `push_vm/stack.rs` (a bottom-first vector),
  `SStack` the specification (a list whose head is the top).
-/
import Uec.Lemmas.Stack
namespace Uec.Props.C04
open Uec
variable {α : Type}

/-- One operation of the Impl refines the same operation of the Spec: same output,
    and the abstraction commutes. -/
theorem step_refines (s : Stack α) (op : StackOp α) :
    (s.step op).1.abs = (s.abs.step op).1 ∧ (s.step op).2 = (s.abs.step op).2 := by
  obtain ⟨l, hs⟩ := s.exists_rev
  generalize s.max = m at hs
  subst hs
  cases op with
  | push v =>
    simp only [Stack.step, push_rev]
    by_cases h : l.length ≥ m <;> simp [h, SStack.step, Stack.abs]
  | pop => simp only [Stack.step, pop_rev]; cases l <;> simp [SStack.step, Stack.abs]
  | pop2 =>
    simp only [Stack.step, pop2_rev]
    match l with
    | [] | [_] | _ :: _ :: _ => simp [SStack.step, Stack.abs]
  | pop3 =>
    simp only [Stack.step, pop3_rev]
    match l with
    | [] | [_] | [_, _] | _ :: _ :: _ :: _ => simp [SStack.step, Stack.abs]
  | top => simp only [Stack.step, top_rev]; cases l <;> simp [SStack.step, Stack.abs]
  | top2 =>
    simp only [Stack.step, top2_rev]
    match l with
    | [] | [_] | _ :: _ :: _ => simp [SStack.step, Stack.abs]
  | top3 =>
    simp only [Stack.step, top3_rev]
    match l with
    | [] | [_] | [_, _] | _ :: _ :: _ :: _ => simp [SStack.step, Stack.abs]
  | discard n =>
    simp only [Stack.step, discard_rev]
    by_cases h : n > l.length <;> simp [h, SStack.step, Stack.abs]
  | pushMany vs =>
    simp only [Stack.step, pushMany_rev]
    by_cases h : vs.length + l.length > m <;> simp [h, SStack.step, Stack.abs]
  | tryExtend vs =>
    simp only [Stack.step, tryExtend_rev]
    by_cases h : vs.length > m - l.length <;> simp [h, SStack.step, Stack.abs]
  | setMax k => simp [Stack.step, SStack.step, Stack.abs, Stack.setMax]
  | size => simp [Stack.step, SStack.step, Stack.abs, Stack.size]
  | isEmpty => simp [Stack.step, SStack.step, Stack.abs, Stack.isEmpty]
  | isFull => simp [Stack.step, SStack.step, Stack.abs, Stack.isFull, Stack.size]
  | maxSize => simp [Stack.step, SStack.step, Stack.abs]

/-- **Refinement over histories**: any sequence of operations, of any length, on any values and
    capacities (0 included), produces on the Impl exactly the outputs the list-Spec produces, and
    the final contents agree. -/
theorem history (s : Stack α) (ops : List (StackOp α)) :
    (s.run ops).1.abs = (s.abs.run ops).1 ∧ (s.run ops).2 = (s.abs.run ops).2 := by
  induction ops generalizing s with
  | nil => simp [Stack.run, SStack.run]
  | cons op ops ih =>
    obtain ⟨h1, h2⟩ := step_refines s op
    obtain ⟨i1, i2⟩ := ih (s.step op).1
    simp only [Stack.run, SStack.run]
    rw [← h1, ← h2]
    exact ⟨i1, by rw [i2]⟩

/-- The abstraction loses nothing: two Impl stacks with the same abstraction are equal. -/
theorem abs_injective (s t : Stack α) (h : s.abs = t.abs) : s = t := by
  cases s; cases t
  simp only [Stack.abs, SStack.mk.injEq] at h
  obtain ⟨h1, h2⟩ := h
  have := congrArg List.reverse h2
  simp only [List.reverse_reverse] at this
  simp [h1, this]

/-- Spec-level atomicity: an operation that reports an error leaves the spec stack untouched. -/
theorem spec_atomic (s : SStack α) (op : StackOp α) :
    (∃ e, (s.step op).2 = .err e) ∨ (∃ e c, (s.step op).2 = .ext (some e) c) →
    (s.step op).1 = s := by
  intro h
  cases op with
  | push v => simp only [SStack.step] at *; split <;> simp_all
  | pop => simp only [SStack.step] at *; split <;> simp_all
  | pop2 => simp only [SStack.step] at *; split <;> simp_all
  | pop3 => simp only [SStack.step] at *; split <;> simp_all
  | top => simp only [SStack.step] at *; split <;> simp_all
  | top2 => simp only [SStack.step] at *; split <;> simp_all
  | top3 => simp only [SStack.step] at *; split <;> simp_all
  | discard n => simp only [SStack.step] at *; split <;> simp_all
  | pushMany l => simp only [SStack.step] at *; split <;> simp_all
  | tryExtend l => simp only [SStack.step] at *; split <;> simp_all
  | setMax m => simp [SStack.step] at h
  | size => simp [SStack.step] at h
  | isEmpty => simp [SStack.step] at h
  | isFull => simp [SStack.step] at h
  | maxSize => simp [SStack.step] at h

/-- **All-or-nothing** on the Impl (the Rust-shaped code): whenever an operation reports
    underflow or overflow — including `try_extend`, which has already appended to the vector
    when it discovers the overflow — the stack afterwards is exactly the stack before. -/
theorem atomic (s : Stack α) (op : StackOp α) :
    (∃ e, (s.step op).2 = .err e) ∨ (∃ e c, (s.step op).2 = .ext (some e) c) →
    (s.step op).1 = s := by
  intro h
  obtain ⟨h1, h2⟩ := step_refines s op
  apply abs_injective
  rw [h1]
  exact spec_atomic s.abs op (by rw [← h2]; exact h)

/-- Errors carry what the property says: underflow reports the requested and the present count. -/
theorem underflow_payload (s : SStack α) (op : StackOp α) (r p : Nat)
    (h : (s.step op).2 = .err (.underflow r p)) :
    p = s.items.length ∧ p < r ∧
      r = (match op with | .pop | .top => 1 | .pop2 | .top2 => 2 | .pop3 | .top3 => 3
                         | .discard n => n | _ => 0) := by
  obtain ⟨m, items⟩ := s
  cases op with
  | push v => simp only [SStack.step] at h; split at h <;> simp_all
  | pop => cases items <;> simp [SStack.step] at h; obtain ⟨rfl, rfl⟩ := h; simp
  | pop2 =>
    match items with
    | [] | [_] => simp [SStack.step] at h; obtain ⟨rfl, rfl⟩ := h; simp
    | _ :: _ :: _ => simp [SStack.step] at h
  | pop3 =>
    match items with
    | [] | [_] | [_, _] => simp [SStack.step] at h; obtain ⟨rfl, rfl⟩ := h; simp
    | _ :: _ :: _ :: _ => simp [SStack.step] at h
  | top => cases items <;> simp [SStack.step] at h; obtain ⟨rfl, rfl⟩ := h; simp
  | top2 =>
    match items with
    | [] | [_] => simp [SStack.step] at h; obtain ⟨rfl, rfl⟩ := h; simp
    | _ :: _ :: _ => simp [SStack.step] at h
  | top3 =>
    match items with
    | [] | [_] | [_, _] => simp [SStack.step] at h; obtain ⟨rfl, rfl⟩ := h; simp
    | _ :: _ :: _ :: _ => simp [SStack.step] at h
  | discard n =>
    simp only [SStack.step] at h; split at h
    · simp at h; obtain ⟨rfl, rfl⟩ := h; simp; omega
    · simp at h
  | pushMany l => simp only [SStack.step] at h; split at h <;> simp_all
  | tryExtend l => simp only [SStack.step] at h; split at h <;> simp_all
  | setMax m => simp [SStack.step] at h
  | size => simp [SStack.step] at h
  | isEmpty => simp [SStack.step] at h
  | isFull => simp [SStack.step] at h
  | maxSize => simp [SStack.step] at h

/-- **Capacity**: no successful insertion of at least one element leaves the Impl stack larger
    than its *current* maximum — whatever the history was (in particular after
    `set_max_stack_size` below the present size). -/
theorem capacity (s : Stack α) (op : StackOp α)
    (hins : match op with
      | .push _ => True | .pushMany l => l ≠ [] | .tryExtend l => l ≠ [] | _ => False)
    (hok : (s.step op).2 = .unit ∨ ∃ c, (s.step op).2 = .ext none c) :
    (s.step op).1.size ≤ (s.step op).1.max := by
  obtain ⟨l, hs⟩ := s.exists_rev
  generalize s.max = m at hs
  subst hs
  cases op with
  | push v =>
    simp only [Stack.step, push_rev] at *
    by_cases h : l.length ≥ m
    · simp [if_pos h] at hok
    · simp only [if_neg h, Stack.size]; simp; omega
  | pushMany vs =>
    simp only [Stack.step, pushMany_rev] at *
    by_cases h : vs.length + l.length > m
    · simp [if_pos h] at hok
    · simp only [if_neg h, Stack.size]; simp; omega
  | tryExtend vs =>
    simp only [Stack.step, tryExtend_rev] at *
    have : 0 < vs.length := List.length_pos_iff.mpr hins
    by_cases h : vs.length > m - l.length
    · simp [if_pos h] at hok
    · simp only [if_neg h, Stack.size]; simp; omega
  | _ => simp at hins

/-- LIFO, first clause: what was pushed last is read and removed first. -/
theorem push_then_pop (s : SStack α) (v : α) (h : s.items.length < s.max) :
    ((s.step (.push v)).1.step .pop) = (s, .v1 v) := by
  simp [SStack.step, Nat.not_le.mpr h]

/-- Bulk insertion, exact-size flavour: the first supplied value is the new top, the rest follow
    in the order given, above the old contents. -/
theorem pushMany_order (s : SStack α) (l : List α) (h : l.length + s.items.length ≤ s.max) :
    (s.step (.pushMany l)).1.items = l ++ s.items := by
  simp [SStack.step, Nat.not_lt.mpr h]

/-- Bulk insertion, plain-iterator flavour: same order. -/
theorem tryExtend_order (s : SStack α) (l : List α) (h : l.length ≤ s.max - s.items.length) :
    (s.step (.tryExtend l)).1.items = l ++ s.items := by
  simp [SStack.step, Nat.not_lt.mpr h]

/-- Discarding removes exactly the requested count from the top. -/
theorem discard_exact (s : SStack α) (n : Nat) (h : n ≤ s.items.length) :
    (s.step (.discard n)).1.items = s.items.drop n ∧ (s.step (.discard n)).2 = .unit := by
  simp [SStack.step, Nat.not_lt.mpr h]


/-! ### LIFO over whole histories, and the read operations -/

/-- The read-only operations (`top`, `top2`, `top3` and the size queries) never change the stack - whether they
    succeed or report underflow. -/
theorem reads_leave_unchanged (s : SStack α) (op : StackOp α)
    (h : match op with
      | .top | .top2 | .top3 | .size | .isEmpty | .isFull | .maxSize => True
      | _ => False) :
    (s.step op).1 = s := by
  cases op with
  | top => simp only [SStack.step]; split <;> rfl
  | top2 => simp only [SStack.step]; split <;> rfl
  | top3 => simp only [SStack.step]; split <;> rfl
  | size | isEmpty | isFull | maxSize => rfl
  | _ => simp at h

/-- Reading shows exactly what removing would hand out: `top`/`top2`/`top3` return the same values (top first) or
    the same underflow as `pop`/`pop2`/`pop3`. -/
theorem top_shows_what_pop_removes (s : SStack α) :
    (s.step .top).2 = (s.step .pop).2 ∧ (s.step .top2).2 = (s.step .pop2).2 ∧
    (s.step .top3).2 = (s.step .pop3).2 := by
  obtain ⟨m, items⟩ := s
  refine ⟨?_, ?_, ?_⟩
  · cases items <;> simp [SStack.step]
  · match items with
    | [] | [_] | _ :: _ :: _ => simp [SStack.step]
  · match items with
    | [] | [_] | [_, _] | _ :: _ :: _ :: _ => simp [SStack.step]

/-- Removing two (three) at once is removing one after the other: the values come out most recent first. -/
theorem pop2_is_two_pops (s : SStack α) (x y : α) (r : List α) (h : s.items = x :: y :: r) :
    s.step .pop2 = ({ s with items := r }, .v2 x y) ∧
    s.run [.pop, .pop] = ({ s with items := r }, [.v1 x, .v1 y]) := by
  obtain ⟨m, items⟩ := s
  simp only at h; subst h
  simp [SStack.step, SStack.run]

theorem pop3_is_three_pops (s : SStack α) (x y z : α) (r : List α) (h : s.items = x :: y :: z :: r) :
    s.step .pop3 = ({ s with items := r }, .v3 x y z) ∧
    s.run [.pop, .pop, .pop] = ({ s with items := r }, [.v1 x, .v1 y, .v1 z]) := by
  obtain ⟨m, items⟩ := s
  simp only at h; subst h
  simp [SStack.step, SStack.run]

/-- pushing a list of values one by one (there is room for all of them): the last one pushed is on top -/
theorem run_pushes (s : SStack α) (vs : List α) (h : vs.length + s.items.length ≤ s.max) :
    s.run (vs.map .push) = ({ s with items := vs.reverse ++ s.items }, vs.map fun _ => .unit) := by
  induction vs generalizing s with
  | nil => simp [SStack.run]
  | cons v vs ih =>
    have hlt : ¬ s.items.length ≥ s.max := by simp only [List.length_cons] at h; omega
    have h' : vs.length + (v :: s.items).length ≤ s.max := by simp only [List.length_cons] at h ⊢; omega
    simp only [List.map_cons, SStack.run, SStack.step, if_neg hlt]
    rw [ih { s with items := v :: s.items } h']
    simp

/-- popping as many values as a list `ws` on top of the stack has: they come out in the order of the list (top
    first) and the rest stays -/
theorem run_pops (s : SStack α) (ws r : List α) (h : s.items = ws ++ r) :
    s.run (ws.map fun _ => .pop) = ({ s with items := r }, ws.map .v1) := by
  induction ws generalizing s with
  | nil => obtain ⟨m, items⟩ := s; simp only [List.nil_append] at h; subst h; simp [SStack.run]
  | cons w ws ih =>
    obtain ⟨m, items⟩ := s
    simp only [List.cons_append] at h; subst h
    simp only [List.map_cons, SStack.run, SStack.step]
    rw [ih ⟨m, ws ++ r⟩ rfl]

/-- **Last in, first out**, for histories of any length: push `vs` one by one and pop as many again - the values come
    back in the reverse of the order they went in, and the stack is what it was. -/
theorem lifo (s : SStack α) (vs : List α) (h : vs.length + s.items.length ≤ s.max) :
    ((s.run (vs.map .push)).1.run (vs.map fun _ => .pop)) = (s, vs.reverse.map .v1) := by
  rw [run_pushes s vs h]
  have := run_pops { s with items := vs.reverse ++ s.items } vs.reverse s.items rfl
  simp only [List.map_reverse] at this ⊢
  have hlen : (vs.map fun _ => (StackOp.pop : StackOp α)) = (vs.map fun _ => (StackOp.pop : StackOp α)).reverse := by
    clear this h
    induction vs with
    | nil => rfl
    | cons v vs ih =>
      simp only [List.map_cons, List.reverse_cons]
      rw [← ih]
      clear ih
      induction vs with
      | nil => rfl
      | cons w ws ih2 => simp only [List.map_cons, List.cons_append]; rw [← ih2]
  rw [hlen, this]

/-- … and the same on the **Impl** (the Rust-shaped vector code), through the refinement: the outputs of
    push-all-then-pop-all are the values in reverse order. -/
theorem impl_lifo (s : Stack α) (vs : List α) (h : vs.length + s.size ≤ s.max) :
    (s.run (vs.map .push ++ vs.map fun _ => .pop)).2 =
      (vs.map fun _ => StackOut.unit) ++ vs.reverse.map .v1 := by
  have hr := (history s (vs.map .push ++ vs.map fun _ => .pop)).2
  rw [hr]
  have hsz : vs.length + s.abs.items.length ≤ s.abs.max := by simpa [Stack.abs, Stack.size] using h
  have run_append : ∀ (t : SStack α) (a b : List (StackOp α)),
      (t.run (a ++ b)).2 = (t.run a).2 ++ ((t.run a).1.run b).2 := by
    intro t a
    induction a generalizing t with
    | nil => intro b; simp [SStack.run]
    | cons o a ih => intro b; simp only [List.cons_append, SStack.run]; rw [ih]
  rw [run_append, lifo s.abs vs hsz, run_pushes s.abs vs hsz]

/-! Non-vacuity: concrete histories meeting the hypotheses, evaluated by the kernel. -/

/-- `push_many [1,2,3]; set_max 1; push 4` is refused and leaves the three elements
    (the witness of finding D3 — with `==` the push succeeded). -/
example : ((Stack.empty 10 : Stack Nat).run
    [.pushMany [1, 2, 3], .setMax 1, .push 4, .size]).2 =
    [.unit, .unit, .err .overflow, .nat 3] := by decide

example : ((Stack.empty 2 : Stack Nat).run
    [.tryExtend [1, 2, 3], .size, .tryExtend [7, 8], .top2, .pop3]).2 =
    [.ext (some .overflow) 3, .nat 0, .ext none 2, .v2 7 8, .err (.underflow 3 2)] := by decide

/-- `lifo` on a concrete stack with old contents: three values go in and come back reversed -/
example : (((⟨5, [9, 8]⟩ : SStack Nat).run ([1, 2, 3].map .push)).1.run ([1, 2, 3].map fun _ => .pop)) =
    (⟨5, [9, 8]⟩, [.v1 3, .v1 2, .v1 1]) := by decide

end Uec.Props.C04
