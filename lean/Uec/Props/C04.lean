/-
  C04 — The bounded stack is a faithful, all-or-nothing LIFO.

  Property theorems only; helper lemmas are in `Uec.Lemmas.Stack`.
  `Stack` is the code-shaped Impl model of `push_vm/stack.rs` (a bottom-first vector),
  `SStack` the specification (a list whose head is the top).
-/
import Uec.Lemmas.Stack
namespace Uec.Props.C04
open Uec
variable {α : Type}

/-- One operation of the Impl refines the same operation of the Spec: same output,
    and the abstraction commutes. -/
theorem step_refines (s : Stack α) (op : StackOp α) :
    (s.step op).1.abs = (s.abs.step op).1 ∧ (s.step op).2 = (s.abs.step op).2 := by
  obtain ⟨l, hs⟩ := s.exists_rev
  generalize s.max = m at hs
  subst hs
  cases op with
  | push v =>
    simp only [Stack.step, push_rev]
    by_cases h : l.length ≥ m <;> simp [h, SStack.step, Stack.abs]
  | pop => simp only [Stack.step, pop_rev]; cases l <;> simp [SStack.step, Stack.abs]
  | pop2 =>
    simp only [Stack.step, pop2_rev]
    match l with
    | [] | [_] | _ :: _ :: _ => simp [SStack.step, Stack.abs]
  | pop3 =>
    simp only [Stack.step, pop3_rev]
    match l with
    | [] | [_] | [_, _] | _ :: _ :: _ :: _ => simp [SStack.step, Stack.abs]
  | top => simp only [Stack.step, top_rev]; cases l <;> simp [SStack.step, Stack.abs]
  | top2 =>
    simp only [Stack.step, top2_rev]
    match l with
    | [] | [_] | _ :: _ :: _ => simp [SStack.step, Stack.abs]
  | top3 =>
    simp only [Stack.step, top3_rev]
    match l with
    | [] | [_] | [_, _] | _ :: _ :: _ :: _ => simp [SStack.step, Stack.abs]
  | discard n =>
    simp only [Stack.step, discard_rev]
    by_cases h : n > l.length <;> simp [h, SStack.step, Stack.abs]
  | pushMany vs =>
    simp only [Stack.step, pushMany_rev]
    by_cases h : vs.length + l.length > m <;> simp [h, SStack.step, Stack.abs]
  | tryExtend vs =>
    simp only [Stack.step, tryExtend_rev]
    by_cases h : vs.length > m - l.length <;> simp [h, SStack.step, Stack.abs]
  | setMax k => simp [Stack.step, SStack.step, Stack.abs, Stack.setMax]
  | size => simp [Stack.step, SStack.step, Stack.abs, Stack.size]
  | isEmpty => simp [Stack.step, SStack.step, Stack.abs, Stack.isEmpty]
  | isFull => simp [Stack.step, SStack.step, Stack.abs, Stack.isFull, Stack.size]
  | maxSize => simp [Stack.step, SStack.step, Stack.abs]

/-- **Refinement over histories**: any sequence of operations, of any length, on any values and
    capacities (0 included), produces on the Impl exactly the outputs the list-Spec produces, and
    the final contents agree. -/
theorem history (s : Stack α) (ops : List (StackOp α)) :
    (s.run ops).1.abs = (s.abs.run ops).1 ∧ (s.run ops).2 = (s.abs.run ops).2 := by
  induction ops generalizing s with
  | nil => simp [Stack.run, SStack.run]
  | cons op ops ih =>
    obtain ⟨h1, h2⟩ := step_refines s op
    obtain ⟨i1, i2⟩ := ih (s.step op).1
    simp only [Stack.run, SStack.run]
    rw [← h1, ← h2]
    exact ⟨i1, by rw [i2]⟩

/-- The abstraction loses nothing: two Impl stacks with the same abstraction are equal. -/
theorem abs_injective (s t : Stack α) (h : s.abs = t.abs) : s = t := by
  cases s; cases t
  simp only [Stack.abs, SStack.mk.injEq] at h
  obtain ⟨h1, h2⟩ := h
  have := congrArg List.reverse h2
  simp only [List.reverse_reverse] at this
  simp [h1, this]

/-- Spec-level atomicity: an operation that reports an error leaves the spec stack untouched. -/
theorem spec_atomic (s : SStack α) (op : StackOp α) :
    (∃ e, (s.step op).2 = .err e) ∨ (∃ e c, (s.step op).2 = .ext (some e) c) →
    (s.step op).1 = s := by
  intro h
  cases op with
  | push v => simp only [SStack.step] at *; split <;> simp_all
  | pop => simp only [SStack.step] at *; split <;> simp_all
  | pop2 => simp only [SStack.step] at *; split <;> simp_all
  | pop3 => simp only [SStack.step] at *; split <;> simp_all
  | top => simp only [SStack.step] at *; split <;> simp_all
  | top2 => simp only [SStack.step] at *; split <;> simp_all
  | top3 => simp only [SStack.step] at *; split <;> simp_all
  | discard n => simp only [SStack.step] at *; split <;> simp_all
  | pushMany l => simp only [SStack.step] at *; split <;> simp_all
  | tryExtend l => simp only [SStack.step] at *; split <;> simp_all
  | setMax m => simp [SStack.step] at h
  | size => simp [SStack.step] at h
  | isEmpty => simp [SStack.step] at h
  | isFull => simp [SStack.step] at h
  | maxSize => simp [SStack.step] at h

/-- **All-or-nothing** on the Impl (the Rust-shaped code): whenever an operation reports
    underflow or overflow — including `try_extend`, which has already appended to the vector
    when it discovers the overflow — the stack afterwards is exactly the stack before. -/
theorem atomic (s : Stack α) (op : StackOp α) :
    (∃ e, (s.step op).2 = .err e) ∨ (∃ e c, (s.step op).2 = .ext (some e) c) →
    (s.step op).1 = s := by
  intro h
  obtain ⟨h1, h2⟩ := step_refines s op
  apply abs_injective
  rw [h1]
  exact spec_atomic s.abs op (by rw [← h2]; exact h)

/-- Errors carry what the property says: underflow reports the requested and the present count. -/
theorem underflow_payload (s : SStack α) (op : StackOp α) (r p : Nat)
    (h : (s.step op).2 = .err (.underflow r p)) :
    p = s.items.length ∧ p < r ∧
      r = (match op with | .pop | .top => 1 | .pop2 | .top2 => 2 | .pop3 | .top3 => 3
                         | .discard n => n | _ => 0) := by
  obtain ⟨m, items⟩ := s
  cases op with
  | push v => simp only [SStack.step] at h; split at h <;> simp_all
  | pop => cases items <;> simp [SStack.step] at h; obtain ⟨rfl, rfl⟩ := h; simp
  | pop2 =>
    match items with
    | [] | [_] => simp [SStack.step] at h; obtain ⟨rfl, rfl⟩ := h; simp
    | _ :: _ :: _ => simp [SStack.step] at h
  | pop3 =>
    match items with
    | [] | [_] | [_, _] => simp [SStack.step] at h; obtain ⟨rfl, rfl⟩ := h; simp
    | _ :: _ :: _ :: _ => simp [SStack.step] at h
  | top => cases items <;> simp [SStack.step] at h; obtain ⟨rfl, rfl⟩ := h; simp
  | top2 =>
    match items with
    | [] | [_] => simp [SStack.step] at h; obtain ⟨rfl, rfl⟩ := h; simp
    | _ :: _ :: _ => simp [SStack.step] at h
  | top3 =>
    match items with
    | [] | [_] | [_, _] => simp [SStack.step] at h; obtain ⟨rfl, rfl⟩ := h; simp
    | _ :: _ :: _ :: _ => simp [SStack.step] at h
  | discard n =>
    simp only [SStack.step] at h; split at h
    · simp at h; obtain ⟨rfl, rfl⟩ := h; simp; omega
    · simp at h
  | pushMany l => simp only [SStack.step] at h; split at h <;> simp_all
  | tryExtend l => simp only [SStack.step] at h; split at h <;> simp_all
  | setMax m => simp [SStack.step] at h
  | size => simp [SStack.step] at h
  | isEmpty => simp [SStack.step] at h
  | isFull => simp [SStack.step] at h
  | maxSize => simp [SStack.step] at h

/-- **Capacity**: no successful insertion of at least one element leaves the Impl stack larger
    than its *current* maximum — whatever the history was (in particular after
    `set_max_stack_size` below the present size). -/
theorem capacity (s : Stack α) (op : StackOp α)
    (hins : match op with
      | .push _ => True | .pushMany l => l ≠ [] | .tryExtend l => l ≠ [] | _ => False)
    (hok : (s.step op).2 = .unit ∨ ∃ c, (s.step op).2 = .ext none c) :
    (s.step op).1.size ≤ (s.step op).1.max := by
  obtain ⟨l, hs⟩ := s.exists_rev
  generalize s.max = m at hs
  subst hs
  cases op with
  | push v =>
    simp only [Stack.step, push_rev] at *
    by_cases h : l.length ≥ m
    · simp [if_pos h] at hok
    · simp only [if_neg h, Stack.size]; simp; omega
  | pushMany vs =>
    simp only [Stack.step, pushMany_rev] at *
    by_cases h : vs.length + l.length > m
    · simp [if_pos h] at hok
    · simp only [if_neg h, Stack.size]; simp; omega
  | tryExtend vs =>
    simp only [Stack.step, tryExtend_rev] at *
    have : 0 < vs.length := List.length_pos_iff.mpr hins
    by_cases h : vs.length > m - l.length
    · simp [if_pos h] at hok
    · simp only [if_neg h, Stack.size]; simp; omega
  | _ => simp at hins

/-- LIFO, first clause: what was pushed last is read and removed first. -/
theorem push_then_pop (s : SStack α) (v : α) (h : s.items.length < s.max) :
    ((s.step (.push v)).1.step .pop) = (s, .v1 v) := by
  simp [SStack.step, Nat.not_le.mpr h]

/-- Bulk insertion, exact-size flavour: the first supplied value is the new top, the rest follow
    in the order given, above the old contents. -/
theorem pushMany_order (s : SStack α) (l : List α) (h : l.length + s.items.length ≤ s.max) :
    (s.step (.pushMany l)).1.items = l ++ s.items := by
  simp [SStack.step, Nat.not_lt.mpr h]

/-- Bulk insertion, plain-iterator flavour: same order. -/
theorem tryExtend_order (s : SStack α) (l : List α) (h : l.length ≤ s.max - s.items.length) :
    (s.step (.tryExtend l)).1.items = l ++ s.items := by
  simp [SStack.step, Nat.not_lt.mpr h]

/-- Discarding removes exactly the requested count from the top. -/
theorem discard_exact (s : SStack α) (n : Nat) (h : n ≤ s.items.length) :
    (s.step (.discard n)).1.items = s.items.drop n ∧ (s.step (.discard n)).2 = .unit := by
  simp [SStack.step, Nat.not_lt.mpr h]

/-! Non-vacuity: concrete histories meeting the hypotheses, evaluated by the kernel. -/

/-- `push_many [1,2,3]; set_max 1; push 4` is refused and leaves the three elements
    (the witness of finding D3 — with `==` the push succeeded). -/
example : ((Stack.empty 10 : Stack Nat).run
    [.pushMany [1, 2, 3], .setMax 1, .push 4, .size]).2 =
    [.unit, .unit, .err .overflow, .nat 3] := by decide

example : ((Stack.empty 2 : Stack Nat).run
    [.tryExtend [1, 2, 3], .size, .tryExtend [7, 8], .top2, .pop3]).2 =
    [.ext (some .overflow) 3, .nat 0, .ext none 2, .v2 7 8, .err (.underflow 3 2)] := by decide

end Uec.Props.C04
