/-
  C05 — Genome-to-program translation is total and structure preserving.

  `Plushy.parse/blocks/toProgram` is the code-shaped Impl model of `parse_from_plushy` (recursive
  descent over one shared cursor); the Spec is in `Uec.Model.PlushySpec`.  Everything is generic in
  the instruction type `ι` and the table `opens : ι → Nat`, so it holds for every instruction set.
-/
import Uec.Lemmas.Plushy
import Uec.Model.PlushySpec
import Uec.Model.PushSyntax
namespace Uec.Props.C05
open Uec Uec.Plushy
variable {ι : Type} (opens : ι → Nat)

/-- **Totality.** The translation is a total function: Lean accepted the mutual definition of
    `parse`/`blocks` only with the termination proof given in `Uec.Model.Plushy` (measure: remaining
    genes, then blocks still owed).  Stated as: a result exists for every genome, and the recursive
    descent never reads past the genes it was given. -/
theorem parse_total (genes : List (Gene ι)) :
    ∃ p, toProgram opens genes = p ∧ (parse opens true genes []).1.2.length ≤ genes.length :=
  ⟨_, rfl, (parse opens true genes []).2⟩

/-- at top level the whole genome is consumed -/
theorem top_consumes_all (genes : List (Gene ι)) : pRest opens true genes = [] := by
  have h := (plushy_induct opens (fun top g => top = true → pRest opens top g = [])
    (fun _ _ => True)
    (fun top _ => by simp)
    (fun r ih _ => by simpa using ih rfl)
    (fun r h => by simp at h)
    (fun top i r _ ih ht => by rw [pRest_instr]; exact ih ht)
    (fun _ => trivial) (fun _ _ _ _ => trivial)).1
  exact h true genes rfl

/-- Depth-first reading: what the parser produced followed by what it left unread is the genome's
    instruction sequence — for every call of the recursive descent. -/
theorem flatten_parse_aux :
    (∀ (top : Bool) (g : List (Gene ι)),
      flatten (pItems opens top g) ++ instrs (pRest opens top g) = instrs g) ∧
    (∀ (n : Nat) (g : List (Gene ι)),
      flatten (bItems opens n g) ++ instrs (bRest opens n g) = instrs g) := by
  apply plushy_induct opens
  · intro top; simp [flatten, instrs]
  · intro r ih; simpa [instrs] using ih
  · intro r; simp [flatten, instrs]
  · intro top i r ih2 ih1
    rw [pItems_instr, pRest_instr]
    simp only [flatten, flattenT, instrs, List.cons_append, List.nil_append, List.cons.injEq, true_and]
    have hf : ∀ a b : List (Tree ι), flatten (a ++ b) = flatten a ++ flatten b := by
      intro a b; induction a with
      | nil => simp [flatten]
      | cons t ts ih => simp [flatten, ih]
    rw [hf, List.append_assoc, ih1, ih2]
  · intro g; simp [flatten]
  · intro n g ih1 ih2
    rw [bItems_succ, bRest_succ]
    simp only [flatten, flattenT, List.append_assoc]
    rw [ih2, ih1]

/-- **Structure preservation.** Reading the resulting program depth-first yields exactly the
    genome's instructions in their original order (close markers dropped). -/
theorem flatten_parse (genes : List (Gene ι)) :
    flatten (toProgram opens genes) = instrs genes := by
  have h := (flatten_parse_aux opens).1 true genes
  rw [top_consumes_all] at h
  simpa [toProgram, pItems, instrs] using h

theorem wellShaped_aux :
    (∀ (top : Bool) (g : List (Gene ι)), WS opens (pItems opens top g)) ∧
    (∀ (n : Nat) (g : List (Gene ι)), Blocks opens n (bItems opens n g)) := by
  apply plushy_induct opens
  · intro top; simpa using WS.nil
  · intro r ih; simpa using ih
  · intro r; simpa using WS.nil
  · intro top i r ih2 ih1
    rw [pItems_instr]; exact WS.group i _ _ ih2 ih1
  · intro g; simpa using Blocks.zero
  · intro n g ih1 ih2
    rw [bItems_succ]; exact Blocks.succ n _ _ ih1 ih2

/-- **Well-shapedness.** In the program built from any genome, each instruction that opens `k`
    blocks is immediately followed by exactly `k` blocks (recursively inside blocks). -/
theorem wellShaped_parse (genes : List (Gene ι)) : WS opens (toProgram opens genes) :=
  (wellShaped_aux opens).1 true genes

/-! ### Agreement with the open-block automaton (close markers, end of genome) -/

theorem finishGo_close (items : List (Tree ι)) (owed : Nat) (p : Frame ι) (fs : List (Frame ι)) :
    finish (closeTop ((items, owed) :: p :: fs)) = finish ((items, owed) :: p :: fs) := by
  obtain ⟨pitems, powed⟩ := p
  have rhs : finish ((items, owed) :: (pitems, powed) :: fs) =
      finishGo (pitems ++ [.block items] ++ List.replicate owed (.block []), powed) fs := by
    simp [finish, finishGo]
  rw [rhs]
  simp only [closeTop]
  -- closing step by step = closing in one go
  suffices h : ∀ (n : Nat) (acc : List (Tree ι)),
      finish (openBlocks n ((acc, powed) :: fs)) =
        finishGo (acc ++ List.replicate n (.block []), powed) fs by
    exact h owed (pitems ++ [.block items])
  intro n
  induction n with
  | zero => intro acc; simp [openBlocks, finish]
  | succ n ih =>
    intro acc
    simp only [openBlocks, finish, finishGo]
    have := ih (acc ++ [.block []])
    cases n with
    | zero => simp [List.replicate]
    | succ m =>
      simp only [List.replicate_succ, List.nil_append]
      simp [List.replicate_succ', List.append_assoc]

theorem runA_nil (st : List (Frame ι)) : runA opens st [] = finish st := rfl
theorem runA_cons (st : List (Frame ι)) (x : Gene ι) (g : List (Gene ι)) :
    runA opens st (x :: g) = runA opens (stepA opens st x) g := rfl

theorem automaton_aux :
    (∀ (top : Bool) (g : List (Gene ι)),
      (top = false → ∀ (acc : List (Tree ι)) (owed : Nat) (p : Frame ι) (fs : List (Frame ι)),
        runA opens ((acc, owed) :: p :: fs) g =
          runA opens (closeTop ((acc ++ pItems opens false g, owed) :: p :: fs)) (pRest opens false g)) ∧
      (top = true → ∀ (acc : List (Tree ι)) (o : Nat),
        runA opens [(acc, o)] g = runA opens [(acc ++ pItems opens true g, o)] (pRest opens true g))) ∧
    (∀ (n : Nat) (g : List (Gene ι)),
      ∀ (pacc : List (Tree ι)) (po : Nat) (fs : List (Frame ι)),
        runA opens (openBlocks n ((pacc, po) :: fs)) g =
          runA opens ((pacc ++ bItems opens n g, po) :: fs) (bRest opens n g)) := by
  apply plushy_induct opens
    (fun top g =>
      (top = false → ∀ (acc : List (Tree ι)) (owed : Nat) (p : Frame ι) (fs : List (Frame ι)),
        runA opens ((acc, owed) :: p :: fs) g =
          runA opens (closeTop ((acc ++ pItems opens false g, owed) :: p :: fs)) (pRest opens false g)) ∧
      (top = true → ∀ (acc : List (Tree ι)) (o : Nat),
        runA opens [(acc, o)] g = runA opens [(acc ++ pItems opens true g, o)] (pRest opens true g)))
    (fun n g => ∀ (pacc : List (Tree ι)) (po : Nat) (fs : List (Frame ι)),
        runA opens (openBlocks n ((pacc, po) :: fs)) g =
          runA opens ((pacc ++ bItems opens n g, po) :: fs) (bRest opens n g))
  · intro top
    refine ⟨fun _ acc owed p fs => ?_, fun _ acc o => by simp⟩
    simp only [pItems_nil, pRest_nil, List.append_nil, runA_nil]
    exact (finishGo_close acc owed p fs).symm
  · intro r ih
    refine ⟨fun h => by simp at h, fun _ acc o => ?_⟩
    rw [runA_cons]; simp only [stepA, closeTop, pItems_close_top, pRest_close_top]
    exact ih.2 rfl acc o
  · intro r
    refine ⟨fun _ acc owed p fs => ?_, fun h => by simp at h⟩
    rw [runA_cons]; simp [stepA]
  · intro top i r ih2 ih1
    refine ⟨fun ht acc owed p fs => ?_, fun ht acc o => ?_⟩
    · subst ht
      rw [runA_cons]; simp only [stepA]
      rw [ih2, ih1.1 rfl, pItems_instr, pRest_instr]
      simp [List.append_assoc]
    · subst ht
      rw [runA_cons]; simp only [stepA]
      rw [ih2, ih1.2 rfl, pItems_instr, pRest_instr]
      simp [List.append_assoc]
  · intro g pacc po fs; simp [openBlocks]
  · intro n g ih1 ih2 pacc po fs
    simp only [openBlocks]
    rw [ih1.1 rfl [] n (pacc, po) fs]
    simp only [List.nil_append, closeTop]
    rw [ih2, bItems_succ, bRest_succ]
    simp [List.append_assoc]

/-- **Close markers and the end of the genome.** The recursive descent builds exactly the program
    of the open-block automaton: a close marker ends the innermost open block and is ignored when
    none is open; blocks still open (or still owed) when the genome ends are closed there, empty
    if nothing was put into them. -/
theorem parse_eq_automaton (genes : List (Gene ι)) :
    toProgram opens genes = automaton opens genes := by
  have h := ((automaton_aux opens).1 true genes).2 rfl [] 0
  rw [top_consumes_all, runA_nil] at h
  simp only [automaton]
  rw [h]; simp [finish, finishGo, toProgram, pItems]

/-! ### Every well-shaped program is the translation of a genome -/

theorem unparse_append (a b : List (Tree ι)) : unparse (a ++ b) = unparse a ++ unparse b := by
  induction a with
  | nil => simp [unparse]
  | cons t ts ih => simp [unparse, ih, List.append_assoc]

theorem parse_unparse_aux (p : List (Tree ι)) (h : WS opens p) :
    ∀ (top : Bool) (tail : List (Gene ι)),
      pItems opens top (unparse p ++ tail) = p ++ pItems opens top tail ∧
      pRest opens top (unparse p ++ tail) = pRest opens top tail := by
  refine WS.rec (opens := opens)
    (motive_1 := fun p _ => ∀ (top : Bool) (tail : List (Gene ι)),
      pItems opens top (unparse p ++ tail) = p ++ pItems opens top tail ∧
      pRest opens top (unparse p ++ tail) = pRest opens top tail)
    (motive_2 := fun n bs _ => ∀ (tail : List (Gene ι)),
      bItems opens n (unparse bs ++ tail) = bs ∧ bRest opens n (unparse bs ++ tail) = tail)
    ?_ ?_ ?_ ?_ h
  · intro top tail; simp [unparse]
  · intro i bs rest _ _ ihb ihr top tail
    have e : unparse (Tree.instr i :: (bs ++ rest)) ++ tail =
        Gene.instr i :: (unparse bs ++ (unparse rest ++ tail)) := by
      simp [unparse, unparseT, unparse_append, List.append_assoc]
    rw [e, pItems_instr, pRest_instr, (ihb _).1, (ihb _).2, (ihr top tail).1, (ihr top tail).2]
    simp [List.append_assoc]
  · intro tail; simp [unparse]
  · intro n b bs _ _ ihw ihb tail
    have e : unparse (Tree.block b :: bs) ++ tail = unparse b ++ (Gene.close :: (unparse bs ++ tail)) := by
      simp [unparse, unparseT, List.append_assoc]
    rw [e, bItems_succ, bRest_succ, (ihw false _).1, (ihw false _).2]
    simp only [pItems_close_inner, pRest_close_inner, List.append_nil]
    exact ⟨by rw [(ihb tail).1], (ihb tail).2⟩

/-- **Surjectivity onto well-shaped programs** (so `wellShaped_parse` is not vacuous and the
    translation loses nothing): translating `unparse p` gives back `p`. -/
theorem parse_unparse (p : List (Tree ι)) (h : WS opens p) : toProgram opens (unparse p) = p := by
  have := (parse_unparse_aux opens p h true []).1
  rw [List.append_nil, pItems_nil, List.append_nil] at this
  exact this

/-! ### The crate's own instruction set

The theorems above hold for every table `opens`.  The table of the crate is `Prog.numOpens` (`Instr0.numOpens` for
instructions): the correspondence check tells the model *this* table - not what the real `num_opens()` answers - and
compares the real answer with it instruction by instruction. -/

/-- the documented table: `IfElse` opens two blocks, `DupBlock`, `When`, `Unless` one, every other instruction none -/
theorem opener_table (i : Instr0) :
    i.numOpens = (if i = .exec .ifElse then 2
      else if i = .exec .dupBlock ∨ i = .exec .when ∨ i = .exec .unless then 1 else 0) := by
  cases i with
  | exec e => cases e <;> simp [Instr0.numOpens]
  | _ => simp [Instr0.numOpens]

/-- an exec literal opens no block, whatever it carries (an opener, a block holding openers, …) -/
theorem literal_opens_nothing (payload : Prog) : (Prog.execPush payload).numOpens = 0 := rfl

/-- the translation of genomes over the crate's instructions is well shaped for the crate's table, reads the genome
    depth first, and is the open-block automaton - instances of the general theorems -/
theorem crate_translation (genes : List (Gene Prog)) :
    WS Prog.numOpens (toProgram Prog.numOpens genes) ∧
    toProgram Prog.numOpens genes = automaton Prog.numOpens genes :=
  ⟨wellShaped_parse Prog.numOpens genes, parse_eq_automaton Prog.numOpens genes⟩

/-- non-vacuity: an `IfElse` literal among the genes is a leaf; the `IfElse` instruction after it takes two blocks -/
example : toProgram Prog.numOpens
    [.instr (.execPush (.instr (.exec .ifElse))), .instr (.instr (.exec .ifElse)), .instr (.instr (.int .add)), .close,
     .instr (.instr (.int .inc))] =
    [.instr (.execPush (.instr (.exec .ifElse))), .instr (.instr (.exec .ifElse)),
     .block [.instr (.instr (.int .add))], .block [.instr (.instr (.int .inc))]] := by
  show pItems Prog.numOpens true _ = _
  simp [pItems_instr, pRest_instr, bItems_succ, bRest_succ, Prog.numOpens, Instr0.numOpens]

/-! ### Non-vacuity / examples evaluated by the kernel -/
section examples
/-- instruction set of the examples: `(id, opens)` -/
def op2 : Nat × Nat → Nat := Prod.snd

/-- the repository's own `conversion`-style example: an opener with one block, a stray close -/
example : toProgram op2 [.instr (1, 0), .instr (2, 1), .instr (3, 0), .close, .close, .instr (4, 2), .instr (5, 0)] =
    [.instr (1, 0), .instr (2, 1), .block [.instr (3, 0)], .instr (4, 2), .block [.instr (5, 0)], .block []] := by
  show pItems op2 true _ = _
  simp [pItems_instr, pRest_instr, bItems_succ, bRest_succ, op2]
example : automaton op2 [.instr (1, 0), .instr (2, 1), .instr (3, 0), .close, .close, .instr (4, 2), .instr (5, 0)] =
    [.instr (1, 0), .instr (2, 1), .block [.instr (3, 0)], .instr (4, 2), .block [.instr (5, 0)], .block []] := by
  simp [automaton, runA, stepA, closeTop, openBlocks, finish, finishGo, op2]
end examples

end Uec.Props.C05
