/-
  C02 — A failed instruction leaves the machine state untouched and is skipped.

  Theorems about the **code-shaped Impl** (`Uec.Model.PushImpl`: the Rust's order of checks, pops and
  pushes, `with_replace`, `push_onto` + `with_stack_discard`, `Swap`'s pop2 + two pushes, `IfElse`'s
  pop / pop2 / push, …).  The proofs go through the refinement `perform_eq_spec` to the
  all-or-nothing engine; the hypothesis `SizesOk`/`WF` (every stack within its limit) is what makes
  the code's partial updates collapse — it is established by the builder and preserved by the
  interpreter (C03, C19).
-/
import Uec.Lemmas.PushWF
namespace Uec.Props.C02
open Uec

/-- **The error carries the untouched state.**  For every instruction, block and input variable:
    if `perform` returns a recoverable or a fatal error, the state inside the error is *equal* to the
    state before (every stack, the output, the inputs and the limits). -/
theorem err_state_eq (p : Prog) (s s' : PState) (e : Err) (h : SizesOk s)
    (herr : Impl.perform p s = .recoverable s' e ∨ Impl.perform p s = .fatal s' e) : s' = s := by
  rw [perform_eq_spec p s h] at herr
  rcases Spec.perform_good_or_panic p s with ⟨g, _⟩ | ⟨hpan, _⟩
  · rcases herr with h1 | h1
    · exact g.err s' (by simp [h1, Outcome.errState])
    · exact g.err s' (by simp [h1, Outcome.errState])
  · rcases herr with h1 | h1 <;> simp [hpan] at h1

/-- **Which faults are fatal.**  A fatal error is always a stack overflow (a destination that is
    full); missing operands and arithmetic faults are therefore never fatal. -/
theorem fatal_is_overflow (p : Prog) (s s' : PState) (e : Err) (h : SizesOk s)
    (hf : Impl.perform p s = .fatal s' e) : e = .stack .overflow := by
  rw [perform_eq_spec p s h] at hf
  rcases Spec.perform_good_or_panic p s with ⟨g, _⟩ | ⟨hpan, _⟩
  · exact g.fatal e (by simp [hf, Outcome.fatalErr])
  · simp [hpan] at hf

/-- Missing operands are reported as a recoverable underflow carrying the requested and the present
    count — shown for the representative binary shape (`top2`): integer arithmetic. -/
theorem underflow_recoverable (f : Int64 → Int64 → Except Err Int64) (s : PState) (h : SizesOk s)
    (hlt : s.int.size < 2) :
    Impl.intBinary f s = .recoverable s (.stack (.underflow 2 s.int.size)) := by
  rw [PState.eq_mkS s] at h hlt ⊢
  obtain ⟨_, hi, _, _⟩ := sizesOk_mkS.mp h
  rw [intBinary_spec _ _ _ _ _ _ _ _ _ _ _ f hi]
  simp only [mkS, Stack.ofTop_size] at hlt
  simp [Spec.apply, Spec.sInt2, Spec.takeN, Spec.tops, mkS, hlt]

/-- **The failed instruction is skipped.**  If the instruction on top of the exec stack fails
    recoverably, the interpreter continues exactly as if that instruction had not been there: one
    step is counted and the loop goes on from the state with the instruction removed. -/
theorem skip_is_noop (fuel k : Nat) (s s' : PState) (p : Prog) (est : Stack Prog) (e : Err)
    (h : WF s) (hp : s.exec.pop = .ok (p, est))
    (hr : Impl.perform p { s with exec := est } = .recoverable s' e) :
    Impl.runLoop (fuel + 1) k s = Impl.runLoop fuel (k + 1) { s with exec := est } := by
  have hs : s' = { s with exec := est } :=
    err_state_eq p _ s' e (Impl.wf_pop s p est h hp).1.sizes (.inl hr)
  simp only [Impl.runLoop]
  rw [Impl.runLoopG, hp]
  simp only [hr, hs]

/-- …which is what a `Noop` in its place does. -/
theorem noop_step (fuel k : Nat) (s : PState) (est : Stack Prog)
    (hp : s.exec.pop = .ok (.instr (.exec .noop), est)) :
    Impl.runLoop (fuel + 1) k s = Impl.runLoop fuel (k + 1) { s with exec := est } := by
  simp only [Impl.runLoop]
  rw [Impl.runLoopG, hp]
  simp [Impl.perform, Impl.performInstr, Impl.performExec]

/-! ### Non-vacuity: boundary states in which each kind of fault strikes -/

/-- a state built from top-first lists -/
def st (me mi mf mb : Nat) (le : List Prog) (li : List Int64) (lf : List UInt64) (lb : List Bool) : PState :=
  mkS me mi mf mb le li lf lb [] [] 100

/-- one operand short: `Add` with a single integer → recoverable underflow(2,1), state untouched -/
example : Impl.perform (.instr (.int .add)) (st 4 4 4 4 [] [7] [] []) =
    .recoverable (st 4 4 4 4 [] [7] [] []) (.stack (.underflow 2 1)) := by
  simp [st, mkS, Impl.perform, Impl.performInstr, Impl.performInt, Impl.intBinary, Impl.replaceOn, Impl.liftS,
    bind, Except.bind]

/-- arithmetic fault: `Inc` of `i64::MAX` → recoverable IntOverflow, state untouched -/
example : Impl.perform (.instr (.int .inc)) (st 4 4 4 4 [] [Int64.ofInt I64.maxVal] [] []) =
    .recoverable (st 4 4 4 4 [] [Int64.ofInt I64.maxVal] [] []) (.intOverflow .inc) := by
  simp [st, mkS, Impl.perform, Impl.performInstr, Impl.performInt, Impl.intUnary, Impl.replaceOn, Impl.liftS,
    bind, Except.bind, I64.checked, I64.fits, I64.maxVal, I64.minVal]

/-- full destination: `IsZero` with the bool stack exactly full → fatal overflow, state untouched
    (the integer operand is still there) -/
example : Impl.perform (.instr (.int .isZero)) (st 4 4 4 1 [] [0] [] [true]) =
    .fatal (st 4 4 4 1 [] [0] [] [true]) (.stack .overflow) := by
  simp [st, mkS, Impl.perform, Impl.performInstr, Impl.performInt, Impl.intPred1, Impl.boolFullCheck]

/-- the hypotheses of `err_state_eq` are satisfiable by these states -/
example : SizesOk (st 4 4 4 1 [] [0] [] [true]) := sizesOk_mkS.mpr (by simp)

end Uec.Props.C02
