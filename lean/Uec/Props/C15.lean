/-
  C15 — Scores, errors and individuals are ordered and aggregated consistently.

  Impl: `Uec.Score/Error/TestResult/TestResults/EcIndividual/IndividualGenerator` (Uec/Model/Results.lean),
  each carrying the three Rust comparison traits separately (`Elem`).  Spec: `Uec.ResSpec`.
  The element type of a result is *any* type whose three traits form a lawful total order
  (`Elem.Lawful`); `Elem.int` (the integers) is the instance the correspondence runs on.
-/
import Uec.Model.Results
import Uec.Lemmas.Operator
import Uec.Lemmas.Results
namespace Uec.Props.C15
open Uec Uec.ResSpec

variable {T : Type}

/-! ## 1. The order laws, for any lawful element type -/

/-- The integers are a lawful element type (the hypothesis of everything below is satisfiable). -/
theorem int_lawful : Elem.int.Lawful where
  pcmp_eq _ _ := rfl
  eq_iff a b := by simp [Elem.int]
  cmp_eq_iff a b := by simp [Elem.int]
  swap a b := by
    simp only [Elem.int]
    rw [Int.compare_swap]
  trans a b c := by
    simp only [Elem.int, Int.compare_eq_lt]
    omega

/-- `Score<T>` is `T`'s order: ascending, bigger is better. -/
theorem score_ascending (E : Elem T) (a b : Score T) :
    (Score.elem E).cmp a b = E.cmp a.v b.v ∧ (Score.elem E).pcmp a b = E.pcmp a.v b.v ∧
    (Score.elem E).eq a b = E.eq a.v b.v := ⟨rfl, rfl, rfl⟩

/-- `Error<T>` is the *dual* order: `Error a` compares to `Error b` as `b` compares to `a`. -/
theorem error_descending (E : Elem T) (h : E.Lawful) (a b : Error T) :
    (Error.elem E).cmp a b = E.cmp b.v a.v ∧ (Error.elem E).pcmp a b = E.pcmp b.v a.v ∧
    (Error.elem E).eq a b = E.eq a.v b.v := by
  refine ⟨by simp [Error.elem, h.swap b.v a.v], ?_, rfl⟩
  simp [Error.elem, h.pcmp_eq, h.swap b.v a.v]

/-- `Score<T>` is again a lawful total order … -/
theorem score_lawful (E : Elem T) (h : E.Lawful) : (Score.elem E).Lawful where
  pcmp_eq a b := h.pcmp_eq a.v b.v
  eq_iff a b := by
    cases a; cases b
    simp [Score.elem, h.eq_iff]
  cmp_eq_iff a b := by
    cases a; cases b
    simp [Score.elem, h.cmp_eq_iff]
  swap a b := h.swap a.v b.v
  trans a b c := h.trans a.v b.v c.v

/-- … and so is `Error<T>` (reversal keeps all laws). -/
theorem error_lawful (E : Elem T) (h : E.Lawful) : (Error.elem E).Lawful where
  pcmp_eq a b := by simp [Error.elem, h.pcmp_eq]
  eq_iff a b := by
    cases a; cases b
    simp [Error.elem, h.eq_iff]
  cmp_eq_iff a b := by
    cases a with | mk x => cases b with | mk y =>
    simp only [Error.elem, Error.mk.injEq]
    rw [← h.cmp_eq_iff x y]
    cases E.cmp x y <;> simp [Ordering.swap]
  swap a b := by
    simp only [Error.elem]
    rw [h.swap a.v b.v]
  trans a b c := by
    simp only [Error.elem]
    intro h1 h2
    have h1' : E.cmp b.v a.v = .lt := by rw [h.swap a.v b.v]; cases hh : E.cmp a.v b.v <;> simp_all [Ordering.swap]
    have h2' : E.cmp c.v b.v = .lt := by rw [h.swap b.v c.v]; cases hh : E.cmp b.v c.v <;> simp_all [Ordering.swap]
    have := h.trans c.v b.v a.v h2' h1'
    rw [h.swap c.v a.v] at *
    cases hh : E.cmp c.v a.v <;> simp_all [Ordering.swap]

/-- **The comparison operators agree with each other** for every lawful type (hence for `Score<T>`
    and `Error<T>`): `<`, `<=`, `>`, `>=` (from `partial_cmp`), `==`/`!=` (from `eq`) and `cmp` all
    describe the same order. -/
theorem operators_agree (E : Elem T) (h : E.Lawful) (a b : T) :
    E.pcmp a b = some (E.cmp a b) ∧
    (E.lt a b = true ↔ E.cmp a b = .lt) ∧ (E.le a b = true ↔ E.cmp a b ≠ .gt) ∧
    (E.gt a b = true ↔ E.cmp a b = .gt) ∧ (E.ge a b = true ↔ E.cmp a b ≠ .lt) ∧
    (E.eq a b = true ↔ E.cmp a b = .eq) ∧ (E.ne a b = true ↔ E.cmp a b ≠ .eq) := by
  have hp := h.pcmp_eq a b
  have he : E.eq a b = true ↔ E.cmp a b = .eq := by rw [h.eq_iff, h.cmp_eq_iff]
  refine ⟨hp, ?_, ?_, ?_, ?_, he, ?_⟩
  · simp [Elem.lt, opLt, hp]
  · simp only [Elem.le, opLe, hp]; cases E.cmp a b <;> simp
  · simp [Elem.gt, opGt, hp]
  · simp only [Elem.ge, opGe, hp]; cases E.cmp a b <;> simp
  · simp only [Elem.ne, Bool.not_eq_true', ne_eq]
    rw [← he]; cases E.eq a b <;> simp

/-- **Lawful total order**: reflexive, antisymmetric, transitive, total (stated for `<=`, i.e.
    `cmp ≠ Greater`). -/
theorem total_order_laws (E : Elem T) (h : E.Lawful) :
    (∀ a, E.cmp a a = .eq) ∧
    (∀ a b, E.cmp a b ≠ .gt → E.cmp b a ≠ .gt → a = b) ∧
    (∀ a b c, E.cmp a b ≠ .gt → E.cmp b c ≠ .gt → E.cmp a c ≠ .gt) ∧
    (∀ a b, E.cmp a b ≠ .gt ∨ E.cmp b a ≠ .gt) := by
  refine ⟨fun a => (h.cmp_eq_iff a a).mpr rfl, ?_, ?_, ?_⟩
  · intro a b h1 h2
    rw [h.swap a b] at h2
    apply (h.cmp_eq_iff a b).mp
    cases hh : E.cmp a b <;> simp_all [Ordering.swap]
  · intro a b c h1 h2
    cases h3 : E.cmp a b with
    | gt => exact absurd h3 h1
    | eq =>
      have := (h.cmp_eq_iff a b).mp h3
      subst this; exact h2
    | lt =>
      cases h4 : E.cmp b c with
      | gt => exact absurd h4 h2
      | eq =>
        have := (h.cmp_eq_iff b c).mp h4
        subst this; simp [h3]
      | lt => simp [h.trans a b c h3 h4]
  · intro a b
    rw [h.swap a b]
    cases E.cmp a b <;> simp [Ordering.swap]

/-- **`max`, `min`** (the provided methods of `Ord`, which the selectors' `Iterator::max/min` and user code rely on) pick
    by the same order: `max` returns an operand that is not below the other one - the *second* on a tie -, `min` one
    that is not above - the *first* on a tie. -/
theorem max_min_follow_cmp (E : Elem T) (h : E.Lawful) (a b : T) :
    E.max a b = (if E.cmp a b = .gt then a else b) ∧ E.min a b = (if E.cmp a b = .gt then b else a) := by
  have hlt := (operators_agree E h b a).2.1
  have hsw := h.swap a b
  unfold Elem.max Elem.min
  cases hc : E.cmp a b <;> rw [hc] at hsw <;> simp only [Ordering.swap] at hsw
  · have : ¬ E.lt b a = true := by rw [hlt, hsw]; simp
    simp [this]
  · have : ¬ E.lt b a = true := by rw [hlt, hsw]; simp
    simp [this]
  · have : E.lt b a = true := by rw [hlt, hsw]
    simp [this]

/-- **`clamp`** with valid bounds (`lo <= hi` in the type's own order) returns `x` when it lies within the bounds and the
    violated bound otherwise; with invalid bounds it panics (`none`).  The result always lies within the bounds. -/
theorem clamp_spec (E : Elem T) (h : E.Lawful) (x lo hi : T) :
    (E.cmp lo hi = .gt → E.clamp x lo hi = none) ∧
    (E.cmp lo hi ≠ .gt → ∃ r, E.clamp x lo hi = some r ∧
      r = (if E.cmp x lo = .lt then lo else if E.cmp x hi = .gt then hi else x) ∧
      E.cmp lo r ≠ .gt ∧ E.cmp r hi ≠ .gt) := by
  have hle := (operators_agree E h lo hi).2.2.1
  have hlt := (operators_agree E h x lo).2.1
  have hgt := (operators_agree E h x hi).2.2.2.1
  obtain ⟨hrefl, _, htrans, _⟩ := total_order_laws E h
  constructor
  · intro hc
    have : ¬ E.le lo hi = true := by rw [hle]; simp [hc]
    simp [Elem.clamp, this]
  · intro hc
    have hl : E.le lo hi = true := hle.mpr hc
    refine ⟨_, by simp only [Elem.clamp, hl, if_true]; rfl, ?_, ?_⟩
    · by_cases h1 : E.cmp x lo = .lt
      · simp [hlt.mpr h1, h1]
      · have : ¬ E.lt x lo = true := by rw [hlt]; exact h1
        by_cases h2 : E.cmp x hi = .gt
        · simp [this, h1, hgt.mpr h2, h2]
        · have g : ¬ E.gt x hi = true := by rw [hgt]; exact h2
          simp [this, h1, g, h2]
    · by_cases h1 : E.lt x lo = true
      · simp only [h1, if_true]; exact ⟨by simp [hrefl lo], hc⟩
      · simp only [h1]
        have hxlo : E.cmp x lo ≠ .lt := fun c => h1 (hlt.mpr c)
        have hlox : E.cmp lo x ≠ .gt := by
          rw [h.swap x lo]; cases hh : E.cmp x lo <;> simp_all [Ordering.swap]
        by_cases h2 : E.gt x hi = true
        · simp only [h2, if_true]; exact ⟨hc, by simp [hrefl hi]⟩
        · simp only [h2]
          exact ⟨hlox, fun c => h2 (hgt.mpr c)⟩

/-- **`clamp` on errors** uses the reversed order throughout: bounds are valid when the *smaller* error is the upper
    bound, and the result is the inner clamp with the bounds exchanged.  (An `Error::clamp` that forwards to the inner
    value without exchanging the bounds panics on valid bounds and accepts invalid ones.) -/
theorem error_clamp (E : Elem T) (h : E.Lawful) (x lo hi : T) :
    (Error.elem E).clamp ⟨x⟩ ⟨lo⟩ ⟨hi⟩ = (E.clamp x hi lo).map Error.mk := by
  have hE := error_lawful E h
  obtain ⟨n1, s1⟩ := clamp_spec (Error.elem E) hE ⟨x⟩ ⟨lo⟩ ⟨hi⟩
  obtain ⟨n2, s2⟩ := clamp_spec E h x hi lo
  have hsw : E.cmp hi lo = (E.cmp lo hi).swap := h.swap lo hi
  have hc : (Error.elem E).cmp ⟨lo⟩ ⟨hi⟩ = (E.cmp lo hi).swap := rfl
  by_cases hv : E.cmp hi lo = .gt
  · have : (Error.elem E).cmp ⟨lo⟩ ⟨hi⟩ = .gt := by rw [hc, ← hsw]; exact hv
    rw [n1 this, n2 hv]; rfl
  · have hv' : (Error.elem E).cmp ⟨lo⟩ ⟨hi⟩ ≠ .gt := by rw [hc, ← hsw]; exact hv
    obtain ⟨r1, e1, d1, _, _⟩ := s1 hv'
    obtain ⟨r2, e2, d2, _, _⟩ := s2 hv
    rw [e1, e2, d1, d2]
    simp only [Option.map_some, Option.some.injEq]
    have c1 : (Error.elem E).cmp ⟨x⟩ ⟨lo⟩ = (E.cmp x lo).swap := rfl
    have c2 : (Error.elem E).cmp ⟨x⟩ ⟨hi⟩ = (E.cmp x hi).swap := rfl
    rw [c1, c2]
    obtain ⟨_, _, htrans, _⟩ := total_order_laws E h
    -- x above lo (as values) and x below hi cannot both hold when hi <= lo
    cases hxl : E.cmp x lo <;> cases hxh : E.cmp x hi <;> simp [Ordering.swap]
    -- remaining case: x > lo and x < hi with hi <= lo: contradiction
    exfalso
    have a1 : E.cmp lo x ≠ .gt := by rw [h.swap x lo, hxl]; simp [Ordering.swap]
    have a2 : E.cmp hi x ≠ .gt := htrans hi lo x hv a1
    rw [h.swap x hi, hxh] at a2
    simp [Ordering.swap] at a2

/-- **For any linear order** `T` (Mathlib's `LinearOrder`): `Score T` and `Error T` are lawful total
    orders, `Score` is `T`'s order and `Error` its reverse — in `cmp` and in the operators. -/
theorem any_linear_order (T : Type) [LinearOrder T] :
    (Score.elem (Elem.ofLinearOrder T)).Lawful ∧ (Error.elem (Elem.ofLinearOrder T)).Lawful ∧
    (∀ a b : T, (Score.elem (Elem.ofLinearOrder T)).cmp ⟨a⟩ ⟨b⟩ = compare a b) ∧
    (∀ a b : T, (Error.elem (Elem.ofLinearOrder T)).cmp ⟨a⟩ ⟨b⟩ = compare b a) ∧
    (∀ a b : T, (Score.elem (Elem.ofLinearOrder T)).lt ⟨a⟩ ⟨b⟩ = true ↔ a < b) ∧
    (∀ a b : T, (Error.elem (Elem.ofLinearOrder T)).lt ⟨a⟩ ⟨b⟩ = true ↔ b < a) := by
  have hl := Elem.ofLinearOrder_lawful T
  refine ⟨score_lawful _ hl, error_lawful _ hl, fun _ _ => rfl, ?_, ?_, ?_⟩
  · intro a b
    exact (error_descending _ hl ⟨a⟩ ⟨b⟩).1
  · intro a b
    rw [(operators_agree _ (score_lawful _ hl) ⟨a⟩ ⟨b⟩).2.1]
    exact compare_lt_iff_lt
  · intro a b
    rw [(operators_agree _ (error_lawful _ hl) ⟨a⟩ ⟨b⟩).2.1, (error_descending _ hl ⟨a⟩ ⟨b⟩).1]
    exact compare_lt_iff_lt

/-! ## 2. A score is never comparable to an error -/

theorem score_error_incomparable {S E : Type} (ES : Elem S) (EE : Elem E) (a : Score S) (b : Error E) :
    ofTestResult ES EE (.score a) (.error b) = mixed ∧ ofTestResult ES EE (.error b) (.score a) = mixed :=
  ⟨rfl, rfl⟩

/-- within one variant a `TestResult` compares as the wrapped score / error does -/
theorem testResult_same_variant {S E : Type} (ES : Elem S) (EE : Elem E) (a b : Score S) (c d : Error E) :
    TestResult.pcmp ES EE (.score a) (.score b) = (Score.elem ES).pcmp a b ∧
    TestResult.eq ES EE (.score a) (.score b) = (Score.elem ES).eq a b ∧
    TestResult.pcmp ES EE (.error c) (.error d) = (Error.elem EE).pcmp c d ∧
    TestResult.eq ES EE (.error c) (.error d) = (Error.elem EE).eq c d := ⟨rfl, rfl, rfl, rfl⟩

/-! ## 3. Collections of results and individuals compare as their totals -/

variable {R G : Type}

theorem testResults_compare_as_totals (E : Elem R) (x y : TestResults R) :
    (TestResults.elem E).cmp x y = E.cmp x.total y.total ∧
    (TestResults.elem E).pcmp x y = E.pcmp x.total y.total ∧
    (TestResults.elem E).lt x y = E.lt x.total y.total ∧ (TestResults.elem E).le x y = E.le x.total y.total ∧
    (TestResults.elem E).gt x y = E.gt x.total y.total ∧ (TestResults.elem E).ge x y = E.ge x.total y.total :=
  ⟨rfl, rfl, rfl, rfl, rfl, rfl⟩

theorem individual_compares_as_totals (EG : Elem G) (E : Elem R) (i j : EcIndividual G (TestResults R)) :
    let EI := EcIndividual.elem EG (TestResults.elem E)
    EI.cmp i j = E.cmp i.testResults.total j.testResults.total ∧
    EI.pcmp i j = E.pcmp i.testResults.total j.testResults.total ∧
    EI.lt i j = E.lt i.testResults.total j.testResults.total ∧ EI.le i j = E.le i.testResults.total j.testResults.total ∧
    EI.gt i j = E.gt i.testResults.total j.testResults.total ∧ EI.ge i j = E.ge i.testResults.total j.testResults.total :=
  ⟨rfl, rfl, rfl, rfl, rfl, rfl⟩

/-- An individual compares exactly as its results do **also when the results are incomparable**: an individual
    whose result is a score against one whose result is an error has `partial_cmp = None`, every ordering
    operator false, and is not `==` - whatever the genomes are and whatever `Ord` the result type might carry. -/
theorem individual_mixed_incomparable {S E : Type} (EG : Elem G) (ES : Elem S) (EE : Elem E)
    (cmpR : TestResult S E → TestResult S E → Ordering) (g1 g2 : G) (s : Score S) (e : Error E) :
    let ER : Elem (TestResult S E) := ⟨cmpR, TestResult.pcmp ES EE, TestResult.eq ES EE⟩
    let EI := EcIndividual.elem EG ER
    let a : EcIndividual G (TestResult S E) := ⟨g1, .score s⟩
    let b : EcIndividual G (TestResult S E) := ⟨g2, .error e⟩
    EI.pcmp a b = none ∧ EI.pcmp b a = none ∧
    EI.lt a b = false ∧ EI.le a b = false ∧ EI.gt a b = false ∧ EI.ge a b = false ∧
    EI.lt b a = false ∧ EI.le b a = false ∧ EI.gt b a = false ∧ EI.ge b a = false ∧
    EI.eq a b = false ∧ EI.eq b a = false := by
  simp [EcIndividual.elem, TestResult.pcmp, TestResult.eq, Elem.lt, Elem.le, Elem.gt, Elem.ge, opLt, opLe, opGt, opGe]

/-- … and in general: every ordering operator of an individual is that of its results, for *any* result type
    (partial orders included) -/
theorem individual_compares_as_results (EG : Elem G) (ER : Elem R) (i j : EcIndividual G R) :
    let EI := EcIndividual.elem EG ER
    EI.cmp i j = ER.cmp i.testResults j.testResults ∧ EI.pcmp i j = ER.pcmp i.testResults j.testResults ∧
    EI.lt i j = ER.lt i.testResults j.testResults ∧ EI.le i j = ER.le i.testResults j.testResults ∧
    EI.gt i j = ER.gt i.testResults j.testResults ∧ EI.ge i j = ER.ge i.testResults j.testResults :=
  ⟨rfl, rfl, rfl, rfl, rfl, rfl⟩

/-- The order of result collections (and of individuals) is a lawful total *preorder by total*:
    consistent `partial_cmp`, antisymmetric up to equal totals, transitive; `Equal` exactly for equal
    totals (whatever the per-case results are). -/
theorem testResults_order_laws (E : Elem R) (h : E.Lawful) :
    let ET := TestResults.elem E
    (∀ x y, ET.pcmp x y = some (ET.cmp x y)) ∧ (∀ x y, ET.cmp y x = (ET.cmp x y).swap) ∧
    (∀ x y z, ET.cmp x y = .lt → ET.cmp y z = .lt → ET.cmp x z = .lt) ∧
    (∀ x y, ET.cmp x y = .eq ↔ x.total = y.total) :=
  ⟨fun _ _ => h.pcmp_eq _ _, fun _ _ => h.swap _ _, fun _ _ _ => h.trans _ _ _, fun _ _ => h.cmp_eq_iff _ _⟩

/-! ## 4. The total is the sum of the per-case results, kept in the order given -/

theorem sumFold_eq_sum (l : List Int) : sumFold l = l.sum := by
  have : ∀ (acc : Int) (l : List Int), l.foldl (· + ·) acc = acc + l.sum := by
    intro acc l
    induction l generalizing acc with
    | nil => simp
    | cons x xs ih => simp only [List.foldl_cons, List.sum_cons, ih]; omega
  simpa [sumFold] using this 0 l

theorem from_total_scores (vs : List Int) :
    (TestResults.fromScores vs).total.v = ResSpec.total vs ∧
    (TestResults.fromScores vs).results.map (·.v) = vs ∧
    (TestResults.fromScores vs).results.length = vs.length := by
  simp [TestResults.fromScores, ResSpec.total, sumFold_eq_sum, Function.comp_def]

theorem from_total_errors (vs : List Int) :
    (TestResults.fromErrors vs).total.v = ResSpec.total vs ∧
    (TestResults.fromErrors vs).results.map (·.v) = vs ∧
    (TestResults.fromErrors vs).results.length = vs.length := by
  simp [TestResults.fromErrors, ResSpec.total, sumFold_eq_sum, Function.comp_def]

/-- float results (where the order of summation is observable through rounding): the results are kept in the
    order given … -/
theorem from_floats_results (vs : List UInt64) : (TestResults.fromFloats vs).results = vs := rfl

/-- … and the total is their sum taken in exactly that order: one more result at the end is added to the sum of
    all the others.  Float addition is opaque to the kernel, so this holds for any interpretation of it - it is a
    statement about the order of summation only. -/
theorem float_total_snoc (x : UInt64) (xs : List UInt64) (y : UInt64) :
    (TestResults.fromFloats (x :: (xs ++ [y]))).total =
      ((xs.foldl (fun a b => a + Float.ofBits b) (Float.ofBits x)) + Float.ofBits y).toBits := by
  simp [TestResults.fromFloats, sumFoldFloat, List.foldl_append]

/-- the fold equation: the total of `x :: xs` is the left fold of float addition over `xs` starting at `x` -/
theorem float_total_is_left_fold (x : UInt64) (xs : List UInt64) :
    (TestResults.fromFloats (x :: xs)).total =
      (xs.foldl (fun a b => a + Float.ofBits b) (Float.ofBits x)).toBits := rfl

/-- no cases: no results and a zero total -/
theorem from_empty : TestResults.fromScores ([] : List Int) = ⟨[], ⟨0⟩⟩ ∧
    TestResults.fromErrors ([] : List Int) = ⟨[], ⟨0⟩⟩ := ⟨rfl, rfl⟩

/-! ## 5. Impl = Spec on the integers, all operators at once -/

theorem score_verdicts (a b : Int) :
    ofElem (Score.elem Elem.int) true ⟨a⟩ ⟨b⟩ = same .score a b := by
  simp only [ofElem, same, better, Score.elem, Elem.int, Elem.lt, Elem.le, Elem.gt, Elem.ge, opLt, opLe, opGt, opGe]
  cases compare a b <;> simp

theorem error_verdicts (a b : Int) :
    ofElem (Error.elem Elem.int) true ⟨a⟩ ⟨b⟩ = same .error a b := by
  simp only [ofElem, same, better, Error.elem, Elem.int, Elem.lt, Elem.le, Elem.gt, Elem.ge, opLt, opLe, opGt, opGe]
  rw [← Int.compare_swap a b]
  cases h : compare a b <;> simp [Ordering.swap]

/-! ## 6. Scoring creates the individual from exactly that genome -/

theorem new_carries (g : G) (r : R) :
    (EcIndividual.new g r).genome = g ∧ (EcIndividual.new g r).testResults = r ∧
    (EcIndividual.ofPair (g, r)) = EcIndividual.new g r := ⟨rfl, rfl, rfl⟩

/-- `IndividualGenerator`: on every random stream the generator draws exactly what the genome
    generator draws, and the individual carries exactly the generated genome together with the
    scorer's result for *that* genome. -/
theorem generator_scores_its_genome (gg : Rand G) (sc : Scorer G R) (t : Tape) :
    Rand.exec (IndividualGenerator.sample gg sc) t =
      match Rand.exec gg t with
      | none => none
      | some (g, ps, t') => some (⟨g, sc g⟩, ps, t') := by
  unfold IndividualGenerator.sample
  rw [Rand.exec_bind]
  cases Rand.exec gg t with
  | none => rfl
  | some r => obtain ⟨g, ps, t'⟩ := r; simp [EcIndividual.new]

/-- … in particular for all valid answer sequences (`Reach`). -/
theorem generator_reach (gg : Rand G) (sc : Scorer G R) (i : EcIndividual G R)
    (h : Rand.Reach (IndividualGenerator.sample gg sc) i) :
    Rand.Reach gg i.genome ∧ i.testResults = sc i.genome := by
  unfold IndividualGenerator.sample at h
  induction gg with
  | pure g =>
    simp only [Rand.bind] at h
    cases h
    exact ⟨Rand.Reach.pure g, rfl⟩
  | ask p k ih =>
    simp only [Rand.bind] at h
    cases h with
    | ask hv hr =>
      obtain ⟨h1, h2⟩ := ih _ hr
      exact ⟨Rand.Reach.ask hv h1, h2⟩

/-- `GenomeScorer` (as an operator): on success the individual carries exactly the genome the
    genome maker returned and the scorer's result for it; a failing maker is passed through. -/
theorem genomeScorer_scores_its_genome {ε α : Type} (gm : Oper ε α G) (sc : Scorer G R) (x : α) (t : Tape) :
    Rand.exec (Oper.genomeScorer gm sc EcIndividual.new x) t =
      match Rand.exec (gm x) t with
      | none => none
      | some (.error e, ps, t') => some (.error e, ps, t')
      | some (.ok g, ps, t') => some (.ok ⟨g, sc g⟩, ps, t') := by
  unfold Oper.genomeScorer
  rw [Rand.exec_bind]
  cases Rand.exec (gm x) t with
  | none => rfl
  | some r => obtain ⟨r, ps, t'⟩ := r; cases r <;> simp [EcIndividual.new]

/-- scorers by reference and function scorers are the function they wrap -/
theorem scorer_wrappers (f : G → R) : FnScorer f = f ∧ Scorer.byRef (FnScorer f) = f := ⟨rfl, rfl⟩

/-! ## 7. Non-vacuity -/
example : (Score.elem Elem.int).cmp ⟨37⟩ ⟨82⟩ = .lt ∧ (Error.elem Elem.int).cmp ⟨37⟩ ⟨82⟩ = .gt := by decide
example : (Error.elem Elem.int).lt ⟨-5⟩ ⟨-5⟩ = false ∧ (Error.elem Elem.int).le ⟨-5⟩ ⟨-5⟩ = true := by decide
example : TestResults.fromErrors [5, 8, 0, 9] = ⟨[⟨5⟩, ⟨8⟩, ⟨0⟩, ⟨9⟩], ⟨22⟩⟩ := by decide
/-- equal totals, different per-case results: equal in the order, different under `==` -/
example : (TestResults.elem (Score.elem Elem.int)).cmp ⟨[⟨1⟩, ⟨2⟩], ⟨3⟩⟩ ⟨[⟨3⟩, ⟨0⟩], ⟨3⟩⟩ = .eq ∧
    (TestResults.elem (Score.elem Elem.int)).eq ⟨[⟨1⟩, ⟨2⟩], ⟨3⟩⟩ ⟨[⟨3⟩, ⟨0⟩], ⟨3⟩⟩ = false := by decide

end Uec.Props.C15
