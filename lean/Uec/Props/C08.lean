/-
  C08 — Lexicase filters by randomly ordered cases; winners are never dominated.

  Property theorems only (helper lemmas: `Uec.Lemmas.Select`).  Impl: the `lexicase` case of
  `Sel.select` with the code-shaped loops `lexLoop` / `lexScan` (candidates/winners vectors,
  `split_first`, the `remaining.is_empty()` early break, `get(idx)`, the three-way `cmp`, the two
  shuffles).  Spec: `survivors` (fold of `filterBest` over the case order, no early exit),
  `dominates` (Pareto domination).  `hb = true` is `Score` (higher is better), `hb = false` is
  `Error` (lower is better): every theorem is for both polarities.
-/
import Uec.Lemmas.Select
import Mathlib.Data.Finset.Powerset
import Mathlib.Data.List.Permutation
import Mathlib.Data.Nat.Factorial.Basic
import Mathlib.Algebra.BigOperators.Group.Finset.Basic
import Mathlib.Algebra.BigOperators.Ring.Finset
import Mathlib.Algebra.Order.Field.Rat
import Mathlib.Tactic.FieldSimp
import Mathlib.Data.Rat.Defs
namespace Uec.Props.C08
open Uec Uec.Rand Uec.SelLemmas

/-- every individual has at least `n` results ("case counts not exceeding the results available") -/
def Complete (pop : List Ind) (n : Nat) : Prop := ∀ i (hi : i < pop.length), n ≤ pop[i].results.length

/-- a valid answer of `shuffle` on `n` elements: a permutation of `0..n` -/
def IsShuffle (n : Nat) (l : List Nat) : Prop := l.length = n ∧ l.Nodup ∧ ∀ i ∈ l, i < n

/-- the whole population as candidate positions -/
abbrev everyone (pop : List Ind) : List Nat := List.range pop.length

private theorem perm_range_of_valid {l : List Nat} {n : Nat} (h : IsShuffle n l) : l.Perm (List.range n) := by
  obtain ⟨hlen, hnd, hlt⟩ := h
  have hsub : l ⊆ List.range n := fun x hx => List.mem_range.mpr (hlt x hx)
  exact (List.subperm_of_subset hnd hsub).perm_of_length_le (by simp [hlen])

private theorem hasCase_of_complete {pop : List Ind} {n : Nat} (hc : Complete pop n) {order : List Nat}
    (ho : ∀ c ∈ order, c < n) : ∀ c ∈ order, HasCase pop c (everyone pop) := by
  intro c hco i hi
  have hi' := List.mem_range.mp hi
  simp only [resultAt, getD_eq pop i hi']
  have := hc i hi'
  have hlt : c < pop[i].results.length := by have := ho c hco; omega
  simp [hlt]

/-- what the selector returns when the first shuffle answered `order` and the final shuffle `p` -/
def outcome (hb : Bool) (pop : List Ind) (order p : List Nat) : Except SelErr Nat :=
  match p.head? with
  | some j =>
    match (survivors hb pop order (everyone pop))[j]? with
    | some i => .ok i
    | none => .error .lexEmpty
  | none => .error .lexEmpty

/-- **Lexicase filters by the shuffled case order** (refinement of the loop to the Spec): for a
    population in which every individual has the configured number of results, the candidates at
    the end of the loop are exactly the survivors of filtering by the cases in the drawn order — at
    each case only the candidates with the best result on that case remain.  The early `break` on a
    single candidate is sound. -/
theorem lexicase_survivors (hb : Bool) (pop : List Ind) (n : Nat) (hp : pop ≠ []) (hc : Complete pop n)
    (order : List Nat) (ho : IsShuffle n order) :
    lexLoop hb pop n order (everyone pop) = .ok (survivors hb pop order (everyone pop)) :=
  lexLoop_eq hb pop n order _ (by simpa using hp) (hasCase_of_complete hc ho.2.2)

/-- The survivors are a non-empty subset of the population. -/
theorem survivors_nonempty (hb : Bool) (pop : List Ind) (n : Nat) (hp : pop ≠ []) (hc : Complete pop n)
    (order : List Nat) (ho : IsShuffle n order) :
    survivors hb pop order (everyone pop) ≠ [] ∧ ∀ i ∈ survivors hb pop order (everyone pop), i < pop.length := by
  have h := lexicase_survivors hb pop n hp hc order ho
  obtain ⟨h1, h2⟩ := lexLoop_sub hb pop n order _ _ h
  exact ⟨h2 (by simpa using hp), fun i hi => List.mem_range.mp (h1 i hi)⟩

/-- **Lexicase returns a survivor, chosen by the final shuffle**: for every random stream the
    result is `ok w`, where `w` is the survivor (of filtering by the drawn case order, a
    permutation of the `n` cases) that the final shuffle (a permutation of the survivors) puts first. -/
theorem lexicase_spec (hb : Bool) (pop : List Ind) (n : Nat) (hp : pop ≠ []) (hc : Complete pop n)
    (r : Except SelErr Nat) (h : Reach ((Sel.lexicase n).select hb pop) r) :
    ∃ order p, IsShuffle n order ∧ IsShuffle (survivors hb pop order (everyone pop)).length p ∧
      ∃ j, ∃ hj : j < (survivors hb pop order (everyone pop)).length, p.head? = some j ∧
        r = .ok (survivors hb pop order (everyone pop))[j] := by
  simp only [Sel.select, reach_ask] at h
  obtain ⟨ans, hv, hr⟩ := h
  cases ans with
  | idxs order =>
    have ho : IsShuffle n order := by simpa [Prim.valid, IsShuffle] using hv
    simp only [lexicase_survivors hb pop n hp hc order ho, reach_ask] at hr
    obtain ⟨ans2, hv2, hr2⟩ := hr
    cases ans2 with
    | idxs p =>
      have hps : IsShuffle (survivors hb pop order (everyone pop)).length p := by
        simpa [Prim.valid, IsShuffle] using hv2
      refine ⟨order, p, ho, hps, ?_⟩
      have hne := (survivors_nonempty hb pop n hp hc order ho).1
      cases p with
      | nil =>
        have := hps.1
        simp only [List.length_nil] at this
        exact absurd (List.eq_nil_of_length_eq_zero this.symm) hne
      | cons j ps =>
        have hj : j < (survivors hb pop order (everyone pop)).length := hps.2.2 j (by simp)
        simp only [List.head?_cons, List.getElem?_eq_getElem hj] at hr2
        exact ⟨j, hj, rfl, reach_pure'.mp hr2⟩
    | _ => simp [Prim.valid] at hv2
  | _ => simp [Prim.valid] at hv

/-- **Choosing among the final survivors is unconstrained**: for every case order and every
    survivor there is a random stream selecting it (the support of the uniform choice). -/
theorem lexicase_every_survivor (hb : Bool) (pop : List Ind) (n : Nat) (hp : pop ≠ []) (hc : Complete pop n)
    (order : List Nat) (ho : IsShuffle n order) (w : Nat) (hw : w ∈ survivors hb pop order (everyone pop)) :
    Reach ((Sel.lexicase n).select hb pop) (.ok w) := by
  obtain ⟨j, hj, hjw⟩ := List.getElem_of_mem hw
  simp only [Sel.select]
  refine .ask (ans := .idxs order) (by simpa [Prim.valid, IsShuffle] using ho) ?_
  simp only [lexicase_survivors hb pop n hp hc order ho]
  -- a final shuffle that puts position `j` first
  refine .ask (ans := .idxs (j :: (List.range (survivors hb pop order (everyone pop)).length).erase j)) ?_ ?_
  · simp only [Prim.valid]
    have hmem : j ∈ List.range (survivors hb pop order (everyone pop)).length := List.mem_range.mpr hj
    refine ⟨?_, ?_, ?_⟩
    · rw [List.length_cons, List.length_erase_of_mem hmem, List.length_range]; omega
    · refine List.nodup_cons.mpr ⟨?_, List.nodup_range.erase j⟩
      exact fun h => (List.Nodup.mem_erase_iff List.nodup_range).mp h |>.1 rfl
    · intro i hi
      rcases List.mem_cons.mp hi with rfl | hi
      · exact hj
      · exact List.mem_range.mp (List.mem_of_mem_erase hi)
  · simp only [List.head?_cons, List.getElem?_eq_getElem hj, hjw]
    exact .pure _

/-- **The winner is never Pareto-dominated on the considered cases**: no individual of the
    population is at least as good on every one of the `n` cases and better on one. -/
theorem not_dominated (hb : Bool) (pop : List Ind) (n : Nat) (hp : pop ≠ []) (hc : Complete pop n)
    (w : Nat) (h : Reach ((Sel.lexicase n).select hb pop) (.ok w)) :
    ∀ j, j < pop.length → dominates hb pop n j w = false := by
  intro j hj
  obtain ⟨order, p, ho, _, k, hk, _, hr⟩ := lexicase_spec hb pop n hp hc _ h
  cases hr
  rw [Bool.eq_false_iff]
  intro hdom
  obtain ⟨hall, c0, hc0, hlt⟩ := dominates_cval hb pop n j _ hdom
  have hmemo : ∀ c, c ∈ order ↔ c < n := fun c => by
    rw [(perm_range_of_valid ho).mem_iff, List.mem_range]
  obtain ⟨_, hle⟩ := dom_survives hb pop j _ order (everyone pop) (hasCase_of_complete hc ho.2.2)
    (List.mem_range.mpr hj) (List.getElem_mem hk) (fun c hc' => hall c ((hmemo c).mp hc'))
  have := hle c0 ((hmemo c0).mpr hc0)
  omega

/-- Zero cases: nothing is filtered, the choice is among the whole population. -/
theorem zero_cases (hb : Bool) (pop : List Ind) (order : List Nat) (ho : IsShuffle 0 order) :
    survivors hb pop order (everyone pop) = everyone pop := by
  have : order = [] := List.eq_nil_of_length_eq_zero ho.1
  subst this; rfl

/-- A single individual is always the one selected. -/
theorem single_individual (hb : Bool) (x : Ind) (n : Nat) (hc : Complete [x] n) (r : Except SelErr Nat)
    (h : Reach ((Sel.lexicase n).select hb [x]) r) : r = .ok 0 := by
  obtain ⟨order, p, ho, _, j, hj, _, hr⟩ := lexicase_spec hb [x] n (by simp) hc r h
  have hs : survivors hb [x] order (everyone [x]) = [0] := by
    simpa [everyone, List.range, List.range.loop] using survivors_single hb [x] order 0
  simp only [hs, List.length_singleton] at hj
  have : j = 0 := by omega
  subst this
  simp only [hr, hs]; rfl

/-- Both result polarities: `Error` results (lower is better) behave exactly as `Score` results
    with the values negated. -/
theorem error_is_dual_score (x y : Int) : resCmp false x y = resCmp true (-x) (-y) := by
  simp only [resCmp, Bool.false_eq_true, if_false, if_true]
  rcases Int.lt_trichotomy x y with h | h | h
  · rw [Int.compare_eq_gt.mpr h, Int.compare_eq_gt.mpr (by omega)]
  · subst h; simp
  · rw [Int.compare_eq_lt.mpr h, Int.compare_eq_lt.mpr (by omega)]

/-- The survivors of one step are exactly the candidates with the best result on that case. -/
theorem filterBest_spec (hb : Bool) (pop : List Ind) (c : Nat) (cands : List Nat) (h : HasCase pop c cands) (i : Nat) :
    i ∈ filterBest hb pop c cands ↔ i ∈ cands ∧ ∀ j ∈ cands, cval hb pop c j ≤ cval hb pop c i := by
  rw [filterBest_eq hb pop c cands h, List.mem_filter, List.all_eq_true]
  simp

/-- The survivors are listed without repetition (in population order), so "choosing uniformly
    among the final survivors" by the head of the final shuffle gives each survivor one slot. -/
theorem survivors_nodup (hb : Bool) (pop : List Ind) (order : List Nat) :
    (survivors hb pop order (everyone pop)).Nodup := by
  have : ∀ (cands : List Nat), cands.Nodup → (survivors hb pop order cands).Nodup := by
    induction order with
    | nil => intro cands h; exact h
    | cons c cs ih =>
      intro cands h
      rw [survivors_cons]
      exact ih _ (h.sublist List.filter_sublist)
  exact this _ List.nodup_range

/-- Support of the distribution: the result is determined by the drawn case order `π` and the head
    `j` of the final shuffle, it is the `j`-th of the duplicate-free survivor list of `π`, and every
    such pair `(π, j)` is realised by some random stream. -/
theorem lexicase_support (hb : Bool) (pop : List Ind) (n : Nat) (hp : pop ≠ []) (hc : Complete pop n) :
    (∀ r, Reach ((Sel.lexicase n).select hb pop) r →
      ∃ π, IsShuffle n π ∧ ∃ j, ∃ hj : j < (survivors hb pop π (everyone pop)).length,
        r = .ok (survivors hb pop π (everyone pop))[j]) ∧
    (∀ π, IsShuffle n π → ∀ j (hj : j < (survivors hb pop π (everyone pop)).length),
      Reach ((Sel.lexicase n).select hb pop) (.ok (survivors hb pop π (everyone pop))[j])) ∧
    (∀ π, (survivors hb pop π (everyone pop)).Nodup) := by
  refine ⟨?_, ?_, fun π => survivors_nodup hb pop π⟩
  · intro r h
    obtain ⟨π, _, hπ, _, j, hj, _, hr⟩ := lexicase_spec hb pop n hp hc r h
    exact ⟨π, hπ, j, hj, hr⟩
  · intro π hπ j hj
    exact lexicase_every_survivor hb pop n hp hc π hπ _ (List.getElem_mem hj)

/-! ### The distribution -/

section Law
open List

/-- among the `m!` permutations of `m` distinct elements exactly `(m-1)!` start with a given one:
    the head of a uniformly random permutation is uniform -/
theorem count_head (l : List ℕ) (hl : l.Nodup) (x : ℕ) (hx : x ∈ l) :
    ((permutations l).toFinset.filter (fun p => p.head? = some x)).card = (l.length - 1).factorial := by
  have hset : (permutations l).toFinset.filter (fun p => p.head? = some x)
      = ((permutations (l.erase x)).toFinset).image (fun q => x :: q) := by
    ext p
    simp only [Finset.mem_filter, List.mem_toFinset, mem_permutations, Finset.mem_image]
    constructor
    · rintro ⟨hp, hh⟩
      cases p with
      | nil => simp at hh
      | cons y q =>
        simp only [head?_cons, Option.some.injEq] at hh
        subst hh
        refine ⟨q, ?_, rfl⟩
        have := hp.erase y
        simpa using this
    · rintro ⟨q, hq, rfl⟩
      exact ⟨(hq.cons x).trans (perm_cons_erase hx).symm, rfl⟩
  rw [hset, Finset.card_image_of_injective _ (fun a b h => by simpa using h),
    List.toFinset_card_of_nodup (nodup_permutations _ (hl.erase x)), length_permutations,
    length_erase_of_mem hx]

/-- the individual selected when the shuffles answered `π` and `p` (`none`: nobody) -/
def winnerOf (hb : Bool) (pop : List Ind) (π p : List Nat) : Option Nat :=
  match p.head? with
  | some j => (survivors hb pop π (everyone pop))[j]?
  | none => none

/-- the shuffle answers of `n` elements: the permutations of `0..n` -/
def shuffles (n : Nat) : Finset (List Nat) := (List.range n).permutations.toFinset

theorem mem_shuffles (n : Nat) (l : List Nat) : l ∈ shuffles n ↔ IsShuffle n l := by
  simp only [shuffles, List.mem_toFinset, mem_permutations, IsShuffle]
  constructor
  · intro h
    exact ⟨by simpa using h.length_eq, h.nodup_iff.mpr List.nodup_range, fun i hi => List.mem_range.mp (h.mem_iff.mp hi)⟩
  · rintro ⟨hlen, hnd, hlt⟩
    have hsub : l ⊆ List.range n := fun x hx => List.mem_range.mpr (hlt x hx)
    exact (List.subperm_of_subset hnd hsub).perm_of_length_le (by simp [hlen])

/-- among the `m!` answers of the final shuffle, exactly `(m-1)!` select a given survivor -/
theorem count_final (hb : Bool) (pop : List Ind) (π : List Nat) (i : Nat) :
    ((shuffles (survivors hb pop π (everyone pop)).length).filter
        (fun p => winnerOf hb pop π p = some i)).card
      = if i ∈ survivors hb pop π (everyone pop) then ((survivors hb pop π (everyone pop)).length - 1).factorial else 0 := by
  generalize hS : survivors hb pop π (everyone pop) = S
  have hnd : S.Nodup := hS ▸ survivors_nodup hb pop π
  by_cases hi : i ∈ S
  · simp only [hi, if_true]
    obtain ⟨j0, hj0, hij⟩ := List.getElem_of_mem hi
    have := count_head (List.range S.length) List.nodup_range j0 (List.mem_range.mpr hj0)
    rw [List.length_range] at this
    rw [← this]
    congr 1
    apply Finset.filter_congr
    intro p hp
    have hps := (mem_shuffles _ _).mp hp
    simp only [winnerOf, hS]
    cases p with
    | nil => simp
    | cons j ps =>
      have hj : j < S.length := hps.2.2 j (by simp)
      simp only [head?_cons, Option.some.injEq, List.getElem?_eq_getElem hj]
      constructor
      · intro h
        exact (List.Nodup.getElem_inj_iff hnd).mp (h.trans hij.symm)
      · rintro rfl; exact hij
  · simp only [hi, if_false, Finset.card_eq_zero, Finset.filter_eq_empty_iff]
    intro p _ hw
    simp only [winnerOf, hS] at hw
    cases p with
    | nil => simp at hw
    | cons j ps =>
      simp only [head?_cons] at hw
      exact hi (List.mem_of_getElem? hw)

/-- The modelled function of the two shuffle answers: running the Impl on the tape `[π, p]`
    returns the individual `winnerOf π p`. -/
theorem lexicase_run (hb : Bool) (pop : List Ind) (n : Nat) (hp : pop ≠ []) (hc : Complete pop n)
    (π p : List Nat) (hπ : IsShuffle n π) :
    Rand.run ((Sel.lexicase n).select hb pop) [.idxs π, .idxs p] =
      some ((match winnerOf hb pop π p with
              | some i => .ok i
              | none => .error .lexEmpty), []) := by
  simp only [Sel.select, Rand.run, lexicase_survivors hb pop n hp hc π hπ, winnerOf]
  cases p.head? with
  | none => rfl
  | some j =>
    simp only
    cases (survivors hb pop π (everyone pop))[j]? <;> rfl

/-- **The law of lexicase selection** (exact, rational arithmetic): under the uniform law of
    `shuffle` (each of the `n!` case orders, and then each of the `m!` orders of the `m` survivors,
    equally likely) the probability that individual `i` is selected equals the fraction of case
    orderings it survives, split evenly among the co-survivors:
    `P(i) = (1/n!) Σ_π [i ∈ survivors π] / #survivors π`. -/
theorem lexicase_law (hb : Bool) (pop : List Ind) (n : Nat) (i : Nat) :
    (∑ π ∈ shuffles n, (1 / (n.factorial : ℚ)) *
        ∑ p ∈ shuffles (survivors hb pop π (everyone pop)).length,
          (1 / ((survivors hb pop π (everyone pop)).length.factorial : ℚ)) *
            (if winnerOf hb pop π p = some i then 1 else 0))
      = (1 / (n.factorial : ℚ)) *
          ∑ π ∈ shuffles n, (if i ∈ survivors hb pop π (everyone pop)
            then 1 / ((survivors hb pop π (everyone pop)).length : ℚ) else 0) := by
  rw [Finset.mul_sum]
  apply Finset.sum_congr rfl
  intro π _
  congr 1
  rw [← Finset.mul_sum, Finset.sum_boole, count_final]
  by_cases hi : i ∈ survivors hb pop π (everyone pop)
  · simp only [hi, if_true]
    have hm : 0 < (survivors hb pop π (everyone pop)).length := List.length_pos_of_mem hi
    generalize (survivors hb pop π (everyone pop)).length = m at hm
    have h1 : (m.factorial : ℚ) = (m : ℚ) * ((m - 1).factorial : ℚ) := by
      exact_mod_cast (Nat.mul_factorial_pred (Nat.pos_iff_ne_zero.mp hm)).symm
    have h2 : ((m - 1).factorial : ℚ) ≠ 0 := by exact_mod_cast Nat.factorial_ne_zero _
    have h3 : (m : ℚ) ≠ 0 := by exact_mod_cast (by omega : m ≠ 0)
    rw [h1]
    field_simp
  · simp [hi]

end Law

/-! ### Non-vacuity -/

private def pop3 : List Ind := [⟨0, [2, 0]⟩, ⟨0, [0, 2]⟩, ⟨0, [1, 1]⟩, ⟨0, [2, 0]⟩]

example : Complete pop3 2 := by
  intro i hi
  have : i = 0 ∨ i = 1 ∨ i = 2 ∨ i = 3 := by simp [pop3] at hi; omega
  rcases this with rfl | rfl | rfl | rfl <;> simp [pop3]
example : IsShuffle 2 [1, 0] := by simp [IsShuffle]
/-- order matters: case 0 first keeps individuals 0 and 3, case 1 first keeps individual 1 -/
example : survivors true pop3 [0, 1] (everyone pop3) = [0, 3] := by decide
example : survivors true pop3 [1, 0] (everyone pop3) = [1] := by decide
/-- with `Error` results the same matrix selects the others -/
example : survivors false pop3 [0, 1] (everyone pop3) = [1] := by decide
/-- individual 2 = (1,1) is not dominated, yet never survives: non-domination is necessary, not sufficient -/
example : dominates true pop3 2 0 2 = false ∧ dominates true pop3 2 1 2 = false := by decide

end Uec.Props.C08
