/-
  C16 — All randomness comes from the supplied generator; evaluation is deterministic.

  In the models every stochastic operation is a `Rand` tree: a function of its arguments whose only
  access to randomness is the sequence of answers to its primitive requests.  "Equal generator
  states ⇒ equal results and equal final states" is then a property of `Rand.run`; that the *real*
  code draws from nothing but the generator it is handed is what the tie checks on every stochastic
  case (same results from two clones; the real generator and the shadow that answered the model's
  requests end in the same state).  The Push half is a theorem about the interpreter model:
  evaluation depends on the input bindings only through what each name resolves to.
-/
import Uec.Model.Rand
import Uec.Lemmas.PushFrame
import Uec.Props.C19
import Uec.Props.C01
namespace Uec.Props.C16
open Uec

/-! ### operators: results are a function of (arguments, answers) -/

/-- Running against a tape is a function: two runs on equal tapes give equal results and leave equal
    rests (the "generator state afterwards"). -/
theorem run_deterministic {α : Type} (m : Rand α) (t1 t2 : List Ans) (h : t1 = t2) :
    m.run t1 = m.run t2 := by rw [h]

/-- A computation reads its answers strictly left to right and nothing else: sequencing two
    computations runs the second on exactly the rest of the tape the first left. -/
theorem run_bind {α β : Type} (m : Rand α) (f : α → Rand β) : ∀ (t : List Ans),
    (Rand.bind m f).run t = match m.run t with
      | some (a, rest) => (f a).run rest
      | none => none := by
  induction m with
  | pure a => intro t; simp [Rand.bind, Rand.run]
  | ask p k ih =>
    intro t
    cases t with
    | nil => simp [Rand.bind, Rand.run]
    | cons a r => simp only [Rand.bind, Rand.run]; exact ih a r

/-- The result does not depend on any part of the tape it did not read: extending the tape changes
    nothing but the rest. -/
theorem run_append {α : Type} (m : Rand α) : ∀ (t : List Ans) (a : α) (rest : List Ans),
    m.run t = some (a, rest) → ∀ extra, m.run (t ++ extra) = some (a, rest ++ extra) := by
  induction m with
  | pure x => intro t a rest h extra; simp [Rand.run] at h ⊢; obtain ⟨rfl, rfl⟩ := h; exact ⟨rfl, rfl⟩
  | ask p k ih =>
    intro t a rest h extra
    cases t with
    | nil => simp [Rand.run] at h
    | cons x r => simp only [Rand.run, List.cons_append] at h ⊢; exact ih x r a rest h extra

/-! ### repeated / interleaved call histories on one generator -/

/-- a history of calls on one generator: every call starts where the one before stopped -/
def runAll {α : Type} : List (Rand α) → List Ans → Option (List α × List Ans)
  | [], t => some ([], t)
  | m :: ms, t =>
    match m.run t with
    | none => none
    | some (a, t') =>
      match runAll ms t' with
      | none => none
      | some (as, t'') => some (a :: as, t'')

/-- A history is the concatenation of its parts: the second part sees exactly the generator state the first part
    left - nothing else of the first part (operators and generators are values; they keep no memory of earlier calls). -/
theorem history_append {α : Type} (ms₁ ms₂ : List (Rand α)) : ∀ t : List Ans,
    runAll (ms₁ ++ ms₂) t =
      match runAll ms₁ t with
      | none => none
      | some (as, t') =>
        match runAll ms₂ t' with
        | none => none
        | some (bs, t'') => some (as ++ bs, t'') := by
  induction ms₁ with
  | nil => intro t; simp only [List.nil_append, runAll]; cases runAll ms₂ t with
    | none => rfl
    | some r => obtain ⟨bs, t''⟩ := r; rfl
  | cons m ms ih =>
    intro t
    simp only [List.cons_append, runAll]
    cases hm : m.run t with
    | none => rfl
    | some r =>
      obtain ⟨a, t'⟩ := r
      simp only []
      rw [ih t']
      cases runAll ms t' with
      | none => rfl
      | some r2 =>
        obtain ⟨as, t2⟩ := r2
        simp only []
        cases runAll ms₂ t2 with
        | none => rfl
        | some r3 => obtain ⟨bs, t3⟩ := r3; simp

/-- **History independence**: whatever two histories were run before - different calls, different numbers of calls -,
    if they leave the generator in the same state, the next call gives the same result and leaves the same state. -/
theorem next_call_depends_on_state_only {α : Type} (pre₁ pre₂ : List (Rand α)) (m : Rand α) (t₁ t₂ t : List Ans)
    (r₁ r₂ : List α) (h₁ : runAll pre₁ t₁ = some (r₁, t)) (h₂ : runAll pre₂ t₂ = some (r₂, t)) :
    (runAll (pre₁ ++ [m]) t₁).map (fun x => (x.1.getLast?, x.2)) =
    (runAll (pre₂ ++ [m]) t₂).map (fun x => (x.1.getLast?, x.2)) := by
  rw [history_append, history_append, h₁, h₂]
  simp only [runAll]
  cases m.run t with
  | none => rfl
  | some r => obtain ⟨a, t'⟩ := r; simp

/-- non-vacuity: two different histories that leave the same state, then the same call -/
example : runAll [Rand.req .bool, Rand.req .bool] [.bool true, .bool false, .nat 5] =
    some ([.bool true, .bool false], [.nat 5]) := rfl

/-! ### Push: evaluation is a function of program, input values and limits -/

/-- **Independence of the declaration order.** Two states that differ only in their input bindings,
    where both binding lists resolve every name to the same value, evaluate to the same result — same
    outcome, same step count, same stacks and output — for every step budget.  (Stated for the
    prescribed semantics; by C01 `run_eq_spec` it is the code-shaped interpreter on well-formed
    states.) -/
theorem eval_depends_on_lookup_only (s : PState) (i2 : List (String × Lit)) (h : SameLookup s.inputs i2)
    (fuel k : Nat) :
    Impl.runLoopG Spec.perform fuel k (s.withInputs i2) =
      (Impl.runLoopG Spec.perform fuel k s).mapState (·.withInputs i2) :=
  specRun_frame i2 fuel k s h

mutual
theorem bound_congr (i1 i2 : List (String × Lit)) (h : SameLookup i1 i2) : ∀ p : Prog, p.bound i1 = p.bound i2
  | .instr (.inputVar n) => by simp only [Prog.bound, h n]
  | .instr (.exec _) | .instr (.bool _) | .instr (.int _) | .instr (.float _) => rfl
  | .instr .printSpace | .instr .printNewline | .instr .printPeriod | .instr (.printString _) => rfl
  | .execPush q => by simp only [Prog.bound]; exact bound_congr i1 i2 h q
  | .block ps => by simp only [Prog.bound]; exact boundList_congr i1 i2 h ps
theorem boundList_congr (i1 i2 : List (String × Lit)) (h : SameLookup i1 i2) : ∀ ps : List Prog,
    Prog.boundList i1 ps = Prog.boundList i2 ps
  | [] => rfl
  | p :: ps => by simp only [Prog.boundList, bound_congr i1 i2 h p, boundList_congr i1 i2 h ps]
end

/-- … and the same for the **code-shaped interpreter** on well-formed states: declaring the inputs in another
    order (any binding list that resolves every name alike) changes nothing about the evaluation - outcome, step
    count, stacks, output - for every step budget. -/
theorem impl_eval_depends_on_lookup_only (s : PState) (i2 : List (String × Lit)) (h : SameLookup s.inputs i2)
    (hwf : WF s) (fuel k : Nat) :
    Impl.runLoop fuel k (s.withInputs i2) = (Impl.runLoop fuel k s).mapState (·.withInputs i2) := by
  have hwf2 : WF (s.withInputs i2) :=
    ⟨⟨hwf.sizes.exec, hwf.sizes.int, hwf.sizes.float, hwf.sizes.bool⟩, by
      have := hwf.bound
      simp only [PState.withInputs]
      rw [← boundList_congr s.inputs i2 h]; exact this⟩
  unfold Impl.runLoop
  rw [C01.run_eq_spec fuel k _ hwf2, C01.run_eq_spec fuel k s hwf]
  exact specRun_frame i2 fuel k s h

/-- The builder resolves a name to the value last bound to it, wherever in the call sequence the
    binding was made (C19 `built`, `inputOf_of_mem`): two call sequences that bind the same names to
    the same values — in any order, interleaved with other calls in any way — build states with
    `SameLookup` inputs. -/
theorem builder_inputs_order_free (cs1 cs2 : List Builder.Call) (s1 s2 : PState)
    (h1 : Builder.build cs1 = .ok s1) (h2 : Builder.build cs2 = .ok s2)
    (hsame : ∀ name, C19.inputOf name none cs1 = C19.inputOf name none cs2) :
    SameLookup s1.inputs s2.inputs := by
  intro name
  rw [(C19.built cs1 s1 h1).2.2.2.2.2.2.2.2.2.1 name, (C19.built cs2 s2 h2).2.2.2.2.2.2.2.2.2.1 name, hsame name]

/-- non-vacuity: the same two bindings declared in both orders resolve alike -/
example : SameLookup [("x", Lit.int 5), ("y", Lit.int 8)] [("y", Lit.int 8), ("x", Lit.int 5)] := by
  intro n
  simp only [Impl.lookup]
  by_cases h1 : ("x" == n) = true <;> by_cases h2 : ("y" == n) = true <;> simp [h1, h2]
  · have a : "x" = n := by simpa using h1
    have b : "y" = n := by simpa using h2
    rw [← a] at b; simp at b

end Uec.Props.C16
