/-
  C11 — Mutation keeps genome structure: flips stay in place, UMAD only inserts/deletes.

  Property theorems only; helper lemmas are in `Uec.Lemmas.Mutate` / `Uec.Lemmas.Floats`.
  Impl (code-shaped, `Uec.Model.Mutate`): `withRate` (both `WithRate` impls), `withOneOverLength`,
  `umad` (`umadGene` is the closure of the addition pass).  A genome of any of the four Rust types is a
  list; `neg` is the gene's `Not`; `gen : Rand α` is the supplied gene generator (any request tree).
  "For all random streams" is `∀ out, Reach m out → …`: every sequence of answers allowed by the
  contracts of `random::<f32>()` (a grid point `k·2⁻²⁴`, `0 ≤ k < 2²⁴`) and `random_bool(p)` (`false`
  for `p = 0`, `true` for `p = 1`, anything otherwise).  The `f32` comparison `r < rate` is computed
  exactly on the decoded bit patterns (`F32.lt`), not treated as opaque.
-/
import Uec.Lemmas.Mutate
namespace Uec.Props.C11
open Uec Uec.Lin
open Uec.Rand (Reach)
variable {α : Type}

/-! ### bit-flip mutation (`WithRate`) -/

/-- **Exact set of outcomes**: one decision per gene (the grid index `k` of that gene's `f32` draw),
    gene `j` is negated iff `k_j · 2⁻²⁴ < rate`; every decision vector occurs for some stream. -/
theorem withRate_spec (rate : Nat) (neg : α → α) (g out : List α) :
    Reach (withRate rate neg g) out ↔
      ∃ ks : List Nat, ks.length = g.length ∧ (∀ k ∈ ks, k < 2 ^ 24) ∧ out = Spec.flipWith rate neg ks g :=
  reach_withRate rate neg g out

private theorem flipWith_forall₂ (rate : Nat) (neg : α → α) (ks : List Nat) (g : List α)
    (h : ks.length = g.length) :
    Spec.FlipShape neg g (Spec.flipWith rate neg ks g) := by
  induction g generalizing ks with
  | nil => cases ks <;> simp only [Spec.flipWith] <;> exact .nil
  | cons x xs ih =>
    cases ks with
    | nil => simp at h
    | cons k ks =>
      simp only [List.length_cons, Nat.add_right_cancel_iff] at h
      simp only [Spec.flipWith]
      refine Spec.FlipShape.cons ?_ (ih ks h)
      cases flipsAt rate k <;> simp

/-- **Same length, every gene unchanged or negated, in place** — for every stream and every rate
    (any bit pattern, NaN and values outside [0,1] included). -/
theorem withRate_pointwise (rate : Nat) (neg : α → α) (g out : List α)
    (h : Reach (withRate rate neg g) out) :
    Spec.FlipShape neg g out := by
  obtain ⟨ks, hl, -, rfl⟩ := (withRate_spec rate neg g out).mp h
  exact flipWith_forall₂ rate neg ks g hl

theorem withRate_length (rate : Nat) (neg : α → α) (g out : List α)
    (h : Reach (withRate rate neg g) out) : out.length = g.length := by
  have hf := withRate_pointwise rate neg g out h
  clear h
  induction hf with
  | nil => rfl
  | cons _ _ ih => simp [ih]

/-- the same, by position -/
theorem withRate_getElem (rate : Nat) (neg : α → α) (g out : List α)
    (h : Reach (withRate rate neg g) out) (j : Nat) (hj : j < g.length) :
    ∃ hj' : j < out.length, out[j] = g[j] ∨ out[j] = neg g[j] := by
  have hl := withRate_length rate neg g out h
  have hf := withRate_pointwise rate neg g out h
  refine ⟨by omega, ?_⟩
  have : ∀ (g out : List α), Spec.FlipShape neg g out →
      ∀ j (h1 : j < g.length) (h2 : j < out.length), out[j] = g[j] ∨ out[j] = neg g[j] := by
    intro g out hf
    induction hf with
    | nil => intro j h1; simp at h1
    | cons hxy _ ih =>
      intro j h1 h2
      cases j with
      | zero => simpa using hxy
      | succ j => simpa using ih j (by simpa using h1) (by simpa using h2)
  exact this g out hf j hj (by omega)

/-- **Rate 0 is the identity** (`+0.0` or `-0.0`). -/
theorem withRate_rate0 (rate : Nat) (h0 : F32.decode rate = .fin 0) (neg : α → α) (g out : List α)
    (h : Reach (withRate rate neg g) out) : out = g := by
  obtain ⟨ks, hl, -, rfl⟩ := (withRate_spec rate neg g out).mp h
  exact flipWith_none rate neg ks g hl (fun k _ => flipsAt_zero h0 k)

/-- **Rate ≥ 1 flips every gene** (any finite rate `≥ 1.0`, and `+inf`). -/
theorem withRate_rate_ge1 (rate : Nat)
    (h1 : (∃ s, F32.decode rate = .fin s ∧ F32.oneScaled ≤ s) ∨ F32.decode rate = .inf false)
    (neg : α → α) (g out : List α) (h : Reach (withRate rate neg g) out) : out = g.map neg := by
  obtain ⟨ks, hl, hk, rfl⟩ := (withRate_spec rate neg g out).mp h
  apply flipWith_all rate neg ks g hl
  intro k hkm
  rcases h1 with ⟨s, hs, hle⟩ | hinf
  · exact flipsAt_ge_one hs hle (hk k hkm)
  · exact flipsAt_inf hinf k

/-- the rates 0.0 and 1.0 as bit patterns meet the hypotheses above -/
example : F32.decode 0 = .fin 0 := by decide
example : F32.decode 0x80000000 = .fin 0 := by decide
example : ∃ s, F32.decode 0x3F800000 = .fin s ∧ F32.oneScaled ≤ s := ⟨F32.oneScaled, by decide, Int.le_refl _⟩

/-! ### `WithOneOverLength` -/

/-- the length-scaled variant is `WithRate` with the rate `fl32(1.0 / fl32(len))` … -/
theorem withOneOverLength_eq (neg : α → α) (g : List α) :
    withOneOverLength neg g = withRate (F32.recipOfNat g.length) neg g := rfl

/-- … so it too keeps the length and flips in place, for every stream and every length (0 included) -/
theorem withOneOverLength_pointwise (neg : α → α) (g out : List α)
    (h : Reach (withOneOverLength neg g) out) :
    Spec.FlipShape neg g out :=
  withRate_pointwise _ neg g out h

theorem withOneOverLength_empty (neg : α → α) (out : List α)
    (h : Reach (withOneOverLength neg ([] : List α)) out) : out = [] := by
  simpa [withOneOverLength, withRate] using h

/-- a genome of length 1 has rate `1.0 / 1.0 = 1.0`: its gene is always flipped -/
theorem withOneOverLength_singleton (neg : α → α) (x : α) (out : List α)
    (h : Reach (withOneOverLength neg [x]) out) : out = [neg x] := by
  have hr : F32.recipOfNat 1 = 0x3F800000 := by decide
  have := withRate_rate_ge1 (F32.recipOfNat 1)
    (Or.inl ⟨F32.oneScaled, by rw [hr]; decide, Int.le_refl _⟩) neg [x] out h
  simpa using this

/-! ### UMAD -/

/-- **Shape of the addition pass, every stream, every pair of rates**: survivors in their original
    order, at most one new gene right after each parent position, every new gene an output of the
    supplied generator (`Spec.UmadShape`). -/
theorem umadPass_shape (add del : UInt64) (gen : Rand α) (genome out : List α)
    (h : Reach (umadPass add del gen genome) out) : Spec.UmadShape (Reach gen) genome out := by
  induction genome generalizing out with
  | nil => simp only [umadPass, pure_eq, reach_pure] at h; subst h; exact .nil
  | cons g gs ih =>
    obtain ⟨here, tail, hh, ht, rfl⟩ := (reach_umadPass_cons add del gen g gs out).mp h
    obtain ⟨a, d, dn, -, -, -, hx⟩ := (reach_umadGene add del gen g here).mp hh
    have hk : (if (!d) = true then [g] else []) = [] ∨ (if (!d) = true then [g] else []) = [g] := by
      cases d <;> simp
    cases hc : (a && !dn)
    · simp only [hc, Bool.false_eq_true, if_false] at hx
      subst hx
      have := Spec.UmadShape.cons (isGen := Reach gen) (add := []) hk (Or.inl rfl) (ih tail ht)
      simpa using this
    · simp only [hc, if_true] at hx
      obtain ⟨x, hxg, rfl⟩ := hx
      exact Spec.UmadShape.cons hk (Or.inr ⟨x, hxg, rfl⟩) (ih tail ht)

/-- … and for rates strictly between 0 and 1 every such shape occurs for some stream: the Spec is
    exactly the set of possible outputs. -/
theorem umadPass_complete (add del : UInt64) (hadd : F64.certain add = none) (hdel : F64.certain del = none)
    (gen : Rand α) (genome out : List α) (h : Spec.UmadShape (Reach gen) genome out) :
    Reach (umadPass add del gen genome) out := by
  induction h with
  | nil => simp [umadPass]
  | @cons g gs keep addl out hk ha _ ih =>
    rw [reach_umadPass_cons]
    refine ⟨keep ++ addl, out, ?_, ih, by simp⟩
    rw [reach_umadGene]
    have fr := fun b => reach_reqBoolP_free hadd b
    have fd := fun b => reach_reqBoolP_free hdel b
    rcases hk with rfl | rfl <;> rcases ha with rfl | ⟨x, hx, rfl⟩
    · exact ⟨false, true, false, fr _, fd _, rfl, by simp⟩
    · exact ⟨true, true, false, fr _, fd _, fd _, by simpa using hx⟩
    · exact ⟨false, false, false, fr _, fd _, rfl, by simp⟩
    · exact ⟨true, false, false, fr _, fd _, fd _, by simpa using hx⟩

/-- what the shape means when new genes can be told from parent genes (`isNew`): the parent genes
    that survive are a sublist of the parent (original order, nothing duplicated or invented), and
    there are at most as many new genes as parent positions -/
theorem shape_survivors (isGen : α → Prop) (isNew : α → Bool) (genome out : List α)
    (h : Spec.UmadShape isGen genome out) (hgen : ∀ x, isGen x → isNew x = true)
    (hold : ∀ g ∈ genome, isNew g = false) :
    (out.filter (fun x => !isNew x)).Sublist genome ∧
    (out.filter isNew).length ≤ genome.length ∧ out.length ≤ 2 * genome.length := by
  induction h with
  | nil => simp
  | @cons g gs keep addl out hk ha _ ih =>
    have hg : isNew g = false := hold g (by simp)
    obtain ⟨i1, i2, i3⟩ := ih (fun g' hg' => hold g' (by simp [hg']))
    rcases hk with rfl | rfl <;> rcases ha with rfl | ⟨x, hx, rfl⟩
    · refine ⟨?_, ?_, ?_⟩
      · simpa using i1.cons g
      · simp; omega
      · simp; omega
    · have := hgen x hx
      refine ⟨?_, ?_, ?_⟩
      · simpa [List.filter_cons, this] using i1.cons g
      · simp [this]; omega
      · simp; omega
    · refine ⟨?_, ?_, ?_⟩
      · simpa [List.filter_cons, hg] using i1.cons_cons g
      · simp [hg]; omega
      · simp; omega
    · have := hgen x hx
      refine ⟨?_, ?_, ?_⟩
      · simpa [List.filter_cons, hg, this] using i1.cons_cons g
      · simp [hg, this]; omega
      · simp; omega

/-- **UMAD on a non-empty parent**: for probabilities in [0,1] never a panic, always the Spec shape. -/
theorem umad_shape (cfg : UmadCfg) (hv : UmadCfg.Valid cfg) (gen : Rand α) (genome : List α)
    (hne : genome ≠ []) (r : MRes α) (h : Reach (umad cfg gen genome) r) :
    ∃ out, r = .ok out ∧ Spec.UmadShape (Reach gen) genome out := by
  cases genome with
  | nil => exact absurd rfl hne
  | cons g gs =>
    simp only [umad, hv.1, hv.2.1, Bool.not_true, Bool.or_self, Bool.false_eq_true, if_false,
      bind_eq, pure_eq, reach_bind, reach_pure] at h
    obtain ⟨out, ho, rfl⟩ := h
    exact ⟨out, rfl, umadPass_shape _ _ gen _ out ho⟩

/-- **UMAD on an empty parent**: at most one new gene, drawn from the generator; none when
    empty-genome addition is disabled. -/
theorem umad_empty (cfg : UmadCfg) (hv : UmadCfg.Valid cfg) (gen : Rand α) (r : MRes α)
    (h : Reach (umad cfg gen []) r) :
    r = .ok [] ∨ (∃ x, Reach gen x ∧ r = .ok [x] ∧ cfg.emptyAdd ≠ none) := by
  cases he : cfg.emptyAdd with
  | none => simp only [umad, he, pure_eq, reach_pure] at h; exact Or.inl h
  | some p =>
    have := hv.2.2 p he
    simp only [umad, he, this, Bool.not_true, Bool.false_eq_true, if_false, bind_eq, reach_bind] at h
    obtain ⟨b, -, hb⟩ := h
    cases b
    · simp only [Bool.false_eq_true, if_false, pure_eq, reach_pure] at hb; exact Or.inl hb
    · simp only [if_true, reach_bind, pure_eq, reach_pure] at hb
      obtain ⟨x, hx, rfl⟩ := hb
      exact Or.inr ⟨x, hx, rfl, by simp⟩

theorem umad_empty_disabled (cfg : UmadCfg) (he : cfg.emptyAdd = none) (gen : Rand α) (r : MRes α)
    (h : Reach (umad cfg gen []) r) : r = .ok [] := by
  simpa [umad, he] using h

/-- an empty parent with empty-genome addition rate 0 stays empty (`Umad::new(0, _, _)`) -/
theorem umad_empty_rate0 (cfg : UmadCfg) (p : UInt64) (he : cfg.emptyAdd = some p)
    (h0 : F64.certain p = some false) (gen : Rand α) (r : MRes α)
    (h : Reach (umad cfg gen []) r) : r = .ok [] ∨ r = .panic := by
  simp only [umad, he] at h
  by_cases hvp : F64.validP p = true
  · simp only [hvp, Bool.not_true, Bool.false_eq_true, if_false, bind_eq, reach_bind] at h
    obtain ⟨b, hb, hr⟩ := h
    have := reach_reqBoolP.mp hb false h0
    subst this
    simp only [Bool.false_eq_true, if_false, pure_eq, reach_pure] at hr
    exact Or.inl hr
  · simp only [hvp, Bool.not_false, if_true, pure_eq, reach_pure] at h
    exact Or.inr h

/-! ### degenerate rates of UMAD -/

/-- **addition 0, deletion 0: the identity** -/
theorem umadPass_rate00 (add del : UInt64) (ha : F64.certain add = some false)
    (hd : F64.certain del = some false) (gen : Rand α) (genome out : List α)
    (h : Reach (umadPass add del gen genome) out) : out = genome := by
  induction genome generalizing out with
  | nil => simpa [umadPass] using h
  | cons g gs ih =>
    obtain ⟨here, tail, hh, ht, rfl⟩ := (reach_umadPass_cons add del gen g gs out).mp h
    obtain ⟨a, d, dn, ra, rd, -, hx⟩ := (reach_umadGene add del gen g here).mp hh
    have e1 := reach_reqBoolP.mp ra false ha
    have e2 := reach_reqBoolP.mp rd false hd
    subst e1 e2
    simp only [Bool.false_and, Bool.false_eq_true, if_false, Bool.not_false, if_true] at hx
    subst hx
    simp [ih tail ht]

/-- **deletion 1: the result is empty** (whatever the addition rate: new genes are deleted too) -/
theorem umadPass_del1 (add del : UInt64) (hd : F64.certain del = some true) (gen : Rand α)
    (genome out : List α) (h : Reach (umadPass add del gen genome) out) : out = [] := by
  induction genome generalizing out with
  | nil => simpa [umadPass] using h
  | cons g gs ih =>
    obtain ⟨here, tail, hh, ht, rfl⟩ := (reach_umadPass_cons add del gen g gs out).mp h
    obtain ⟨a, d, dn, -, rd, rdn, hx⟩ := (reach_umadGene add del gen g here).mp hh
    have e2 := reach_reqBoolP.mp rd true hd
    subst e2
    have : (a && !dn) = false := by
      cases a
      · rfl
      · simp only [if_true] at rdn
        have := reach_reqBoolP.mp rdn true hd
        subst this; rfl
    simp only [this, Bool.false_eq_true, if_false, Bool.not_true] at hx
    subst hx
    simp [ih tail ht]

/-- **addition 1, deletion 0: every parent gene is followed by exactly one new gene** -/
theorem umadPass_add1_del0 (add del : UInt64) (ha : F64.certain add = some true)
    (hd : F64.certain del = some false) (gen : Rand α) (genome out : List α)
    (h : Reach (umadPass add del gen genome) out) :
    ∃ news : List α, news.length = genome.length ∧ (∀ x ∈ news, Reach gen x) ∧
      out = Spec.interleave genome news := by
  induction genome generalizing out with
  | nil => exact ⟨[], rfl, by simp, by simpa [umadPass, Spec.interleave] using h⟩
  | cons g gs ih =>
    obtain ⟨here, tail, hh, ht, rfl⟩ := (reach_umadPass_cons add del gen g gs out).mp h
    obtain ⟨a, d, dn, ra, rd, rdn, hx⟩ := (reach_umadGene add del gen g here).mp hh
    have e1 := reach_reqBoolP.mp ra true ha
    have e2 := reach_reqBoolP.mp rd false hd
    subst e1 e2
    simp only [if_true] at rdn
    have e3 := reach_reqBoolP.mp rdn false hd
    subst e3
    simp only [Bool.not_false, Bool.and_self, if_true] at hx
    obtain ⟨x, hxg, rfl⟩ := hx
    obtain ⟨news, hl, hn, rfl⟩ := ih tail ht
    refine ⟨x :: news, by simp [hl], ?_, by simp [Spec.interleave]⟩
    intro y hy
    rcases List.mem_cons.mp hy with rfl | hy
    · exact hxg
    · exact hn y hy

/-- the three degenerate configurations at the level of the whole mutator, for a non-empty parent -/
theorem umad_degenerate (cfg : UmadCfg) (hv : UmadCfg.Valid cfg) (gen : Rand α) (genome : List α)
    (hne : genome ≠ []) (r : MRes α) (h : Reach (umad cfg gen genome) r) :
    (F64.certain cfg.add = some false → F64.certain cfg.del = some false → r = .ok genome) ∧
    (F64.certain cfg.del = some true → r = .ok []) ∧
    (F64.certain cfg.add = some true → F64.certain cfg.del = some false →
      ∃ news : List α, news.length = genome.length ∧ (∀ x ∈ news, Reach gen x) ∧
        r = .ok (Spec.interleave genome news)) := by
  cases genome with
  | nil => exact absurd rfl hne
  | cons g gs =>
    simp only [umad, hv.1, hv.2.1, Bool.not_true, Bool.or_self, Bool.false_eq_true, if_false,
      bind_eq, pure_eq, reach_bind, reach_pure] at h
    obtain ⟨out, ho, rfl⟩ := h
    refine ⟨?_, ?_, ?_⟩
    · intro ha hd; rw [umadPass_rate00 _ _ ha hd gen _ out ho]
    · intro hd; rw [umadPass_del1 _ _ hd gen _ out ho]
    · intro ha hd
      obtain ⟨news, hl, hn, rfl⟩ := umadPass_add1_del0 _ _ ha hd gen _ out ho
      exact ⟨news, hl, hn, rfl⟩

/-! ### non-vacuity -/

/-- 0.0, 1.0 and 0.5 as `f64` bit patterns: the certain cases and a free one -/
example : F64.certain 0 = some false ∧ F64.certain 0x3FF0000000000000 = some true ∧
    F64.certain 0x3FE0000000000000 = none := by decide

example : UmadCfg.Valid (UmadCfg.new 0x3FE0000000000000 0x3FD0000000000000) := by
  refine ⟨by decide, by decide, ?_⟩
  intro r hr
  simp only [UmadCfg.new, Option.some.injEq] at hr
  subst hr; decide

/-- a concrete reachable UMAD output: parent `[1,2,3]`, gene 2 deleted, a new gene after gene 3 -/
example : Reach (umadPass 0x3FE0000000000000 0x3FD0000000000000 (reqUser 0) [1, 2, 3]) [1, 3, 77] := by
  apply umadPass_complete _ _ (by decide) (by decide)
  have s3 : Spec.UmadShape (Reach (reqUser 0)) [3] ([3] ++ [77] ++ []) :=
    .cons (Or.inr rfl) (Or.inr ⟨77, reach_reqUser, rfl⟩) .nil
  have s2 : Spec.UmadShape (Reach (reqUser 0)) [2, 3] ([] ++ [] ++ ([3] ++ [77] ++ [])) :=
    .cons (Or.inl rfl) (Or.inl rfl) s3
  have s1 : Spec.UmadShape (Reach (reqUser 0)) [1, 2, 3] ([1] ++ [] ++ ([] ++ [] ++ ([3] ++ [77] ++ []))) :=
    .cons (Or.inr rfl) (Or.inl rfl) s2
  simpa using s1

/-- a reachable bit-flip outcome at rate 0.5: gene 0 flipped (k = 0), gene 1 kept (k = 2²³) -/
example : Reach (withRate 0x3F000000 not [true, true]) [false, true] := by
  apply (withRate_spec _ _ _ _).mpr
  refine ⟨[0, 2 ^ 23], rfl, by decide, ?_⟩
  decide

end Uec.Props.C11
