/-
  C19 — The generated state builder builds the configured state and rejects misuse.

  `Builder.tstep` models the type-state of the generated builder (which method exists in which
  state — *observed* against rustc for every (type-state × method) pair by the compile-probe tie),
  `Builder.vstep` the effect on `partial_state`, `Builder.build cs` a call sequence followed by
  `build()`.  Theorems quantify over every call sequence, of any length and order.
-/
import Uec.Model.Builder
import Uec.Lemmas.PushWF
set_option linter.unusedSimpArgs false
namespace Uec.Props.C19
open Uec Uec.Builder Stack

/-! ### what a call sequence configures (read off the calls alone) -/

/-- the maximum last set for the int stack, globally or individually -/
def intMaxOf (m : Nat) : List Call → Nat
  | [] => m
  | .maxAll n :: cs => intMaxOf n cs
  | .intMax n :: cs => intMaxOf n cs
  | _ :: cs => intMaxOf m cs
def floatMaxOf (m : Nat) : List Call → Nat
  | [] => m
  | .maxAll n :: cs => floatMaxOf n cs
  | .floatMax n :: cs => floatMaxOf n cs
  | _ :: cs => floatMaxOf m cs
def boolMaxOf (m : Nat) : List Call → Nat
  | [] => m
  | .maxAll n :: cs => boolMaxOf n cs
  | .boolMax n :: cs => boolMaxOf n cs
  | _ :: cs => boolMaxOf m cs
def execMaxOf (m : Nat) : List Call → Nat
  | [] => m
  | .maxAll n :: cs => execMaxOf n cs
  | _ :: cs => execMaxOf m cs

/-- the values supplied for the int stack, top first: later calls above earlier ones, within a
    call the first supplied value on top -/
def intSupplied : List Call → List Int64
  | [] => []
  | .intValues vs :: cs => intSupplied cs ++ vs
  | _ :: cs => intSupplied cs
def floatSupplied : List Call → List UInt64
  | [] => []
  | .floatValues vs :: cs => floatSupplied cs ++ vs
  | _ :: cs => floatSupplied cs
def boolSupplied : List Call → List Bool
  | [] => []
  | .boolValues vs :: cs => boolSupplied cs ++ vs
  | _ :: cs => boolSupplied cs
def progSupplied : List Call → List Prog
  | [] => []
  | .program ps :: cs => progSupplied cs ++ ps
  | _ :: cs => progSupplied cs
def stepsOf (m : Nat) : List Call → Nat
  | [] => m
  | .stepLimit n :: cs => stepsOf n cs
  | _ :: cs => stepsOf m cs
/-- the value a name is bound to: the last `with_*_input` for that name -/
def inputOf (name : String) (cur : Option Lit) : List Call → Option Lit
  | [] => cur
  | .input n v :: cs => inputOf name (if n == name then some v else cur) cs
  | _ :: cs => inputOf name cur cs

/-! ### the built state is what was configured -/

theorem lookup_filter (inp : List (String × Lit)) (n name : String) (h : ¬ n = name) :
    Impl.lookup (inp.filter (fun p => !(p.1 == n))) name = Impl.lookup inp name := by
  induction inp with
  | nil => rfl
  | cons p r ih =>
    obtain ⟨pn, pv⟩ := p
    by_cases hp : pn = n
    · subst hp
      have : ¬ (pn == name) = true := by simpa using h
      simp [List.filter, Impl.lookup, this, ih]
    · have hp' : (pn == n) = false := by simpa using hp
      simp only [List.filter, hp', Bool.not_false, Impl.lookup]
      by_cases hq : (pn == name) = true
      · simp [hq]
      · simp [hq, ih]

theorem lookup_insert (inp : List (String × Lit)) (n name : String) (v : Lit) :
    Impl.lookup (insert inp n v) name = if n == name then some v else Impl.lookup inp name := by
  simp only [Builder.insert, Impl.lookup]
  by_cases h : n = name
  · simp [h]
  · have : ¬ (n == name) = true := by simpa using h
    simp only [this, if_false]
    exact lookup_filter inp n name h

/-- **Contents, maxima, program, step limit, inputs** of the built state, for every call sequence:
    each stack holds the supplied values (first supplied on top, later calls above earlier ones), has
    the maximum last set for it, the program's first element is on top of exec, the step limit is the
    one last set, and every name resolves to the value last bound to it. -/
theorem built_from (cs : List Call) : ∀ (t : TState) (s : PState) (k : Nat) (s' : PState),
    runFrom t s k cs = .ok s' →
      s'.int.tops = intSupplied cs ++ s.int.tops ∧ s'.float.tops = floatSupplied cs ++ s.float.tops ∧
      s'.bool.tops = boolSupplied cs ++ s.bool.tops ∧ s'.exec.tops = progSupplied cs ++ s.exec.tops ∧
      s'.int.max = intMaxOf s.int.max cs ∧ s'.float.max = floatMaxOf s.float.max cs ∧
      s'.bool.max = boolMaxOf s.bool.max cs ∧ s'.exec.max = execMaxOf s.exec.max cs ∧
      s'.maxSteps = stepsOf s.maxSteps cs ∧
      (∀ name, Impl.lookup s'.inputs name = inputOf name (Impl.lookup s.inputs name) cs) ∧
      s'.out = s.out := by
  induction cs with
  | nil =>
    intro t s k s' h
    simp only [runFrom] at h
    split at h
    · simp at h; subst h
      simp [intSupplied, floatSupplied, boolSupplied, progSupplied, intMaxOf, floatMaxOf, boolMaxOf, execMaxOf,
        stepsOf, inputOf]
    · simp at h
  | cons c cs ih =>
    intro t s k s' h
    simp only [runFrom] at h
    split at h
    · simp at h
    · rename_i t' ht
      split at h
      · simp at h
      · rename_i s1 hv
        have := ih t' s1 (k + 1) s' h
        obtain ⟨a1, a2, a3, a4, a5, a6, a7, a8, a9, a10, a11⟩ := this
        cases c <;> simp only [vstep, Except.ok.injEq] at hv
        case maxAll n =>
          subst hv
          simp_all [intSupplied, floatSupplied, boolSupplied, progSupplied, intMaxOf, floatMaxOf, boolMaxOf,
            execMaxOf, stepsOf, inputOf, Stack.setMax, Stack.tops]
        case boolMax n | floatMax n | intMax n | noProgram | stepLimit n =>
          subst hv
          simp_all [intSupplied, floatSupplied, boolSupplied, progSupplied, intMaxOf, floatMaxOf, boolMaxOf,
            execMaxOf, stepsOf, inputOf, Stack.setMax, Stack.tops]
        case input n v =>
          subst hv
          simp_all [intSupplied, floatSupplied, boolSupplied, progSupplied, intMaxOf, floatMaxOf, boolMaxOf,
            execMaxOf, stepsOf, inputOf, lookup_insert]
        case boolValues vs | floatValues vs | intValues vs | program ps =>
          simp only [Except.map, Stack.pushMany] at hv
          split at hv
          · simp at hv
          · rename_i v heq
            simp at hv; subst hv
            split at heq
            · simp at heq
            · simp at heq; subst heq
              simp_all [intSupplied, floatSupplied, boolSupplied, progSupplied, intMaxOf, floatMaxOf, boolMaxOf,
                execMaxOf, stepsOf, inputOf, Stack.tops]

/-- …in particular for a builder started with `PushState::builder()`. -/
theorem built (cs : List Call) (s : PState) (h : build cs = .ok s) :
    s.int.tops = intSupplied cs ∧ s.float.tops = floatSupplied cs ∧ s.bool.tops = boolSupplied cs ∧
    s.exec.tops = progSupplied cs ∧
    s.int.max = intMaxOf usizeMax cs ∧ s.float.max = floatMaxOf usizeMax cs ∧
    s.bool.max = boolMaxOf usizeMax cs ∧ s.exec.max = execMaxOf usizeMax cs ∧
    s.maxSteps = stepsOf 0 cs ∧ (∀ name, Impl.lookup s.inputs name = inputOf name none cs) ∧ s.out = [] := by
  have := built_from cs {} init 0 s h
  simpa [init, Stack.tops, Impl.lookup] using this

/-- Named inputs resolve to their values **regardless of the order of declaration**: if `name` is
    bound to `v` somewhere in the call sequence and to nothing else anywhere, it resolves to `v` —
    the hypotheses are statements about membership, invariant under any reordering of the calls. -/
theorem inputOf_of_mem (name : String) (v : Lit) : ∀ (cs : List Call) (cur : Option Lit),
    (.input name v ∈ cs ∨ cur = some v) → (∀ v', .input name v' ∈ cs → v' = v) →
    (cur = none ∨ cur = some v) → inputOf name cur cs = some v := by
  intro cs
  induction cs with
  | nil => intro cur h _ _; simpa [inputOf] using h
  | cons c cs ih =>
    intro cur h hall hcur
    cases c with
    | input n w =>
      simp only [inputOf]
      by_cases hn : n = name
      · subst hn
        have hw : w = v := hall w (by simp)
        subst hw
        simp only [beq_self_eq_true, if_true]
        exact ih _ (.inr rfl) (fun v' hv' => hall v' (by simp [hv'])) (.inr rfl)
      · have : (n == name) = false := by simpa using hn
        simp only [this]
        refine ih cur ?_ (fun v' hv' => hall v' (by simp [hv'])) hcur
        rcases h with h | h
        · simp at h; rcases h with ⟨h1, _⟩ | h
          · exact absurd h1.symm hn
          · exact .inl h
        · exact .inr h
    | _ =>
      simp only [inputOf]
      refine ih cur ?_ (fun v' hv' => hall v' (by simp [hv'])) hcur
      rcases h with h | h
      · simp at h; exact .inl h
      · exact .inr h

/-! ### misuse -/

/-- **Overflow is reported**: supplying more values (or program elements) than fit below the stack's
    current maximum makes the call return `Err(Overflow)` — for values *and* for the program. -/
theorem overflow_reported (s : PState) :
    (∀ vs, vs.length + s.int.size > s.int.max → vstep s (.intValues vs) = .error .overflow) ∧
    (∀ vs, vs.length + s.float.size > s.float.max → vstep s (.floatValues vs) = .error .overflow) ∧
    (∀ vs, vs.length + s.bool.size > s.bool.max → vstep s (.boolValues vs) = .error .overflow) ∧
    (∀ ps, ps.length + s.exec.size > s.exec.max → vstep s (.program ps) = .error .overflow) := by
  refine ⟨?_, ?_, ?_, ?_⟩ <;> intro vs h <;> simp [vstep, Stack.pushMany, h, Except.map]

/-- and conversely a call that fits succeeds -/
theorem fits_ok (s : PState) (vs : List Int64) (h : vs.length + s.int.size ≤ s.int.max) :
    ∃ s', vstep s (.intValues vs) = .ok s' := by
  simp [vstep, Stack.pushMany, Nat.not_lt.mpr h, Except.map]

/-- **A stack's size cannot be changed after values were loaded into it**: in a type-state where a
    stack is `WithSizeAndData`, neither its individual nor the global size method exists. -/
theorem no_resize_after_load (t : TState) (n : Nat) :
    (t.int = .loaded → tstep t (.intMax n) = none ∧ tstep t (.maxAll n) = none) ∧
    (t.float = .loaded → tstep t (.floatMax n) = none ∧ tstep t (.maxAll n) = none) ∧
    (t.bool = .loaded → tstep t (.boolMax n) = none ∧ tstep t (.maxAll n) = none) ∧
    (t.exec = .loaded → tstep t (.maxAll n) = none) := by
  refine ⟨?_, ?_, ?_, ?_⟩ <;> intro h <;> simp [tstep, h, TS.dataless]

/-- values cannot be loaded into a stack whose size was never set -/
theorem no_values_before_size (t : TState) :
    (t.int = .unset → ∀ vs, tstep t (.intValues vs) = none) ∧
    (t.float = .unset → ∀ vs, tstep t (.floatValues vs) = none) ∧
    (t.bool = .unset → ∀ vs, tstep t (.boolValues vs) = none) ∧
    (t.exec ≠ .sized → ∀ ps, tstep t (.program ps) = none ∧ tstep t .noProgram = none) := by
  refine ⟨?_, ?_, ?_, ?_⟩ <;> intro h <;> intros <;> simp [tstep, h, TS.sizeSet]

/-- type-state reached by an accepted prefix -/
def tAfter (t : TState) : List Call → Option TState
  | [] => some t
  | c :: cs => (tstep t c).bind fun t' => tAfter t' cs

theorem runFrom_ok_tAfter (cs : List Call) : ∀ (t : TState) (s : PState) (k : Nat) (s' : PState),
    runFrom t s k cs = .ok s' → ∃ t', tAfter t cs = some t' ∧ buildable t' = true := by
  induction cs with
  | nil => intro t s k s' h; simp only [runFrom] at h; split at h <;> simp_all [tAfter]
  | cons c cs ih =>
    intro t s k s' h
    simp only [runFrom] at h
    split at h
    · simp at h
    · rename_i t' ht
      split at h
      · simp at h
      · obtain ⟨t2, h2, hb⟩ := ih t' _ (k + 1) s' h
        exact ⟨t2, by simp [tAfter, ht, h2], hb⟩

def hasMaxAll : List Call → Bool
  | [] => false
  | .maxAll _ :: _ => true
  | _ :: cs => hasMaxAll cs
def hasProgramDecision : List Call → Bool
  | [] => false
  | .program _ :: _ => true
  | .noProgram :: _ => true
  | _ :: cs => hasProgramDecision cs
def hasStepLimit : List Call → Bool
  | [] => false
  | .stepLimit _ :: _ => true
  | _ :: cs => hasStepLimit cs

/-- the exec type-state leaves `()` only through the global size call, becomes `WithSizeAndData`
    only through a program decision; the step type-state only through a step-limit call -/
theorem tAfter_history (cs : List Call) : ∀ (t t' : TState), tAfter t cs = some t' →
    (t'.exec = .loaded → t.exec = .loaded ∨ hasProgramDecision cs = true) ∧
    (t'.exec ≠ .unset → t.exec ≠ .unset ∨ hasMaxAll cs = true) ∧
    (t'.steps = .loaded → t.steps = .loaded ∨ hasStepLimit cs = true) := by
  induction cs with
  | nil => intro t t' h; simp [tAfter] at h; subst h; exact ⟨.inl, .inl, .inl⟩
  | cons c cs ih =>
    intro t t' h
    simp only [tAfter] at h
    cases ht : tstep t c with
    | none => simp [ht] at h
    | some t1 =>
      simp [ht] at h
      obtain ⟨i1, i2, i3⟩ := ih t1 t' h
      cases c <;> simp only [tstep] at ht <;> (try split at ht) <;> simp at ht <;> subst ht <;>
        simp_all [hasMaxAll, hasProgramDecision, hasStepLimit]

/-- **Builders that have not been given stack sizes, a program decision and a step limit cannot be
    built**: whenever a call sequence followed by `build()` is accepted, it contains the global size
    call, `with_program`/`with_no_program`, and `with_instruction_step_limit`. -/
theorem build_requires (cs : List Call) (s : PState) (h : build cs = .ok s) :
    hasMaxAll cs = true ∧ hasProgramDecision cs = true ∧ hasStepLimit cs = true := by
  obtain ⟨t', ht, hb⟩ := runFrom_ok_tAfter cs {} init 0 s h
  obtain ⟨h1, h2, h3⟩ := tAfter_history cs {} t' ht
  simp only [buildable, Bool.and_eq_true, decide_eq_true_eq] at hb
  refine ⟨?_, ?_, ?_⟩
  · have := h2 (by rw [hb.1]; simp); simpa using this
  · have := h1 hb.1; simpa using this
  · have := h3 hb.2; simpa using this

/-! ### the builder establishes well-formedness (the hypothesis of C02/C03) -/

/-- type-state and value agree: a stack whose type-state is still `Dataless` is empty, and every
    stack is within its limit -/
structure TInv (t : TState) (s : PState) : Prop where
  execE : t.exec.dataless = true → s.exec.values = []
  intE : t.int.dataless = true → s.int.values = []
  floatE : t.float.dataless = true → s.float.values = []
  boolE : t.bool.dataless = true → s.bool.values = []
  sizes : SizesOk s

theorem tinv_init : TInv {} init :=
  ⟨fun _ => rfl, fun _ => rfl, fun _ => rfl, fun _ => rfl, ⟨by simp [init, Stack.size], by simp [init, Stack.size],
    by simp [init, Stack.size], by simp [init, Stack.size]⟩⟩

theorem tinv_step (t t' : TState) (s s' : PState) (c : Call) (h : TInv t s)
    (ht : tstep t c = some t') (hv : vstep s c = .ok s') : TInv t' s' := by
  obtain ⟨e1, e2, e3, e4, ⟨z1, z2, z3, z4⟩⟩ := h
  cases c <;> simp only [tstep] at ht <;> (try split at ht) <;> simp at ht <;> subst ht <;>
    simp only [vstep, Except.ok.injEq] at hv
  case maxAll =>
    rename_i n hd
    simp only [Bool.and_eq_true] at hd
    subst hv
    refine ⟨fun _ => e1 hd.1.1.1, fun _ => e2 hd.2, fun _ => e3 hd.1.2, fun _ => e4 hd.1.1.2, ?_⟩
    constructor <;> simp [Stack.setMax, Stack.size, e1 hd.1.1.1, e2 hd.2, e3 hd.1.2, e4 hd.1.1.2]
  case boolMax =>
    rename_i n hd; subst hv
    exact ⟨e1, e2, e3, fun _ => e4 hd, ⟨z1, z2, z3, by simp [Stack.setMax, Stack.size, e4 hd]⟩⟩
  case floatMax =>
    rename_i n hd; subst hv
    exact ⟨e1, e2, fun _ => e3 hd, e4, ⟨z1, z2, by simp [Stack.setMax, Stack.size, e3 hd], z4⟩⟩
  case intMax =>
    rename_i n hd; subst hv
    exact ⟨e1, fun _ => e2 hd, e3, e4, ⟨z1, by simp [Stack.setMax, Stack.size, e2 hd], z3, z4⟩⟩
  case noProgram => subst hv; exact ⟨by simp [TS.dataless], e2, e3, e4, ⟨z1, z2, z3, z4⟩⟩
  case stepLimit n => subst hv; exact ⟨e1, e2, e3, e4, ⟨z1, z2, z3, z4⟩⟩
  case input n v => subst hv; exact ⟨e1, e2, e3, e4, ⟨z1, z2, z3, z4⟩⟩
  case boolValues vs =>
    simp only [Except.map, Stack.pushMany] at hv
    split at hv
    · simp at hv
    · rename_i v heq; simp at hv; subst hv
      split at heq
      · simp at heq
      · rename_i hroom; simp at heq; subst heq
        exact ⟨e1, e2, e3, by simp [TS.dataless], ⟨z1, z2, z3, by simp [Stack.size] at hroom ⊢; omega⟩⟩
  case floatValues vs =>
    simp only [Except.map, Stack.pushMany] at hv
    split at hv
    · simp at hv
    · rename_i v heq; simp at hv; subst hv
      split at heq
      · simp at heq
      · rename_i hroom; simp at heq; subst heq
        exact ⟨e1, e2, by simp [TS.dataless], e4, ⟨z1, z2, by simp [Stack.size] at hroom ⊢; omega, z4⟩⟩
  case intValues vs =>
    simp only [Except.map, Stack.pushMany] at hv
    split at hv
    · simp at hv
    · rename_i v heq; simp at hv; subst hv
      split at heq
      · simp at heq
      · rename_i hroom; simp at heq; subst heq
        exact ⟨e1, by simp [TS.dataless], e3, e4, ⟨z1, by simp [Stack.size] at hroom ⊢; omega, z3, z4⟩⟩
  case program ps =>
    simp only [Except.map, Stack.pushMany] at hv
    split at hv
    · simp at hv
    · rename_i v heq; simp at hv; subst hv
      split at heq
      · simp at heq
      · rename_i hroom; simp at heq; subst heq
        exact ⟨by simp [TS.dataless], e2, e3, e4, ⟨by simp [Stack.size] at hroom ⊢; omega, z2, z3, z4⟩⟩

theorem runFrom_sizes (cs : List Call) : ∀ (t : TState) (s : PState) (k : Nat) (s' : PState),
    TInv t s → runFrom t s k cs = .ok s' → SizesOk s' := by
  induction cs with
  | nil => intro t s k s' hi h; simp only [runFrom] at h; split at h <;> simp at h; subst h; exact hi.sizes
  | cons c cs ih =>
    intro t s k s' hi h
    simp only [runFrom] at h
    split at h
    · simp at h
    · rename_i t' ht
      split at h
      · simp at h
      · rename_i s1 hv
        exact ih t' s1 (k + 1) s' (tinv_step t t' s s1 c hi ht hv) h

/-- **Every state the builder hands out has all stacks within their limits** — whatever the order and
    number of calls (sizes cannot be lowered below loaded contents because the type-state forbids
    resizing a loaded stack, and `push_many` checks the room). -/
theorem built_sizesOk (cs : List Call) (s : PState) (h : build cs = .ok s) : SizesOk s :=
  runFrom_sizes cs {} init 0 s tinv_init h

/-- …and it is well-formed (`WF`, the hypothesis of C02/C03) as soon as the inputs the program
    mentions were bound. -/
theorem built_WF (cs : List Call) (s : PState) (h : build cs = .ok s)
    (hb : Prog.boundList s.inputs (progSupplied cs) = true) : WF s :=
  ⟨built_sizesOk cs s h, by rw [(built cs s h).2.2.2.1]; exact hb⟩

/-! ### any number and naming of stacks -/

/-- The type-state of `PushState`'s builder is the three-stack instance of the automaton that is
    generic in the number of stacks (the one the compile probes also check on a second, differently
    shaped state struct). -/
theorem tstep_is_generic (t : TState) (c : Call) :
    (tstep t c).map TState.toG = gstep t.toG c.toG ∧ buildable t = gbuildable t.toG := by
  refine ⟨?_, rfl⟩
  cases c <;> simp only [tstep, gstep, Call.toG, TState.toG] <;>
    (try split) <;> simp_all [TState.toG, List.all_cons, List.set]

/-- in the generic automaton too: no resize after load, no build without program decision and step limit -/
theorem generic_no_resize (t : GState) (i : Nat) (h : t.stacks[i]? = some .loaded) :
    gstep t (.maxOf i) = none ∧ gstep t .maxAll = none := by
  constructor
  · simp [gstep, h, TS.dataless]
  · have : t.stacks.all TS.dataless = false := by
      rw [List.all_eq_false]
      exact ⟨.loaded, List.mem_of_getElem? h, by simp [TS.dataless]⟩
    simp [gstep, this]

/-! ### Non-vacuity -/
/-- a typical accepted sequence (values before and after an individual resize of another stack, inputs
    in "reverse" order) and what it builds -/
example : ∃ s, build [.maxAll 16, .intMax 3, .intValues [1, 2], .intValues [3], .program [.instr (.int .add)],
      .input "y" (.int 8), .input "x" (.int 5), .stepLimit 1000] = .ok s ∧
    s.int.tops = [3, 1, 2] ∧ s.int.max = 3 ∧ s.bool.max = 16 := by
  refine ⟨_, rfl, ?_⟩
  decide
/-- one value too many for the individually set size: the overflow is reported at that call -/
example : ∃ e, build [.maxAll 16, .intMax 3, .intValues [1, 2, 3, 4], .noProgram, .stepLimit 5] = .error 2 e :=
  ⟨_, rfl⟩
/-- resizing after loading is rejected by the type-state (call number 2) -/
example : build [.maxAll 16, .intValues [1], .intMax 3, .noProgram, .stepLimit 5] = .rejected 2 := rfl
/-- no step limit: `build()` does not exist -/
example : build [.maxAll 16, .noProgram] = .notBuildable := rfl

end Uec.Props.C19
