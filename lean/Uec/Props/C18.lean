/-
  C18 — Generators deliver exactly the requested collections and uniform member choices.

  Property theorems only.  `Uec.Gen` (Uec/Model/Gen.lean) is the code-shaped Impl model of
  collection.rs / conversion.rs / wrappers/{owned,choose_cloning}.rs / rand's `slice::Choose` /
  one_of_macro.rs and of the element generators of bitstring.rs, plushy.rs and individual/ec.rs;
  helper lemmas are in Uec/Lemmas/{RandRun,Gen,Law}.lean.

  Reading guide.  `Rand.Reach m a` = "some sequence of *valid* answers of the rand primitives makes
  `m` return `a`", so `∀ a, Reach m a → P a` quantifies over every random stream.  `Rand.run m t`
  runs `m` on an explicit answer tape.  `Law.prob L m P` is the probability of `P` under a law `L`
  of the primitives; distribution theorems hold for *every* `L` that gives `Uniform::new(0,n)` and
  `slice::Choose` their documented uniform law (`Law.UniformLaw`).
-/
import Uec.Lemmas.Gen
import Uec.Lemmas.Law
namespace Uec.Props.C18
open Uec Uec.Gen Uec.Rand Uec.Law
variable {α : Type}

/-! ## 1. Collection generators -/

/-- The code's `sample_iter(rng).take(size).collect()` loop *is* "draw the element generator
    `size` times in order" (Impl = Spec), for every element generator and every size. -/
theorem generator_refines_spec (g : Generator (Rand α)) :
    g.sample = specCollect g.elementGenerator g.size :=
  sample_eq_spec g

/-- **Exact size**: whatever the random stream, the collection has exactly `size` elements
    (any size from 0 upwards, any element generator). -/
theorem generator_length (g : Generator (Rand α)) (xs : List α) (h : Reach g.sample xs) :
    xs.length = g.size := by
  rw [sample_eq_spec] at h
  exact ((reach_specCollect _ _ _).mp h).1

/-- **Each element is drawn from the element generator**, and nothing else constrains the
    collection: the possible results are exactly the lists of `size` possible element results
    (so the elements are separate draws, not copies of one draw). -/
theorem generator_elements (g : Generator (Rand α)) (xs : List α) :
    Reach g.sample xs ↔ xs.length = g.size ∧ ∀ x ∈ xs, Reach g.elementGenerator x := by
  rw [sample_eq_spec]; exact reach_specCollect _ _ _

/-- Tape level: the answers consumed are `size` consecutive segments of the stream, element `i`
    is what the element generator makes of segment `i`, and not one answer more is read. -/
theorem generator_tape (g : Generator (Rand α)) (t r : List Ans) (xs : List α) :
    run g.sample t = some (xs, r) ↔
      ∃ segs : List (List Ans), segs.length = g.size ∧ t = segs.flatten ++ r ∧
        Consumes g.elementGenerator segs xs := by
  rw [sample_eq_spec]; exact run_specCollect _ _ _ _ _

/-- Size 0 draws nothing and yields the empty collection. -/
theorem generator_zero (elem : Rand α) (t : List Ans) :
    run (Generator.sample ⟨elem, 0⟩) t = some ([], t) := by
  simp [Generator.sample, collectLoop]

/-- Size 1 is exactly one draw. -/
theorem generator_one (elem : Rand α) :
    Generator.sample ⟨elem, 1⟩ = Rand.bind elem (fun x => Rand.pure [x]) := by
  simp [Generator.sample, collectLoop]

/-- `into_collection_generator` / `to_collection_generator` configure exactly the given size. -/
theorem into_generator_size (elem : Rand α) (n : Nat) (xs : List α)
    (h : Reach (intoCollectionGenerator elem n).sample xs) : xs.length = n :=
  generator_length _ xs h

/-- **Bitstrings** (`Bitstring::random`, `random_with_probability`), **Plushy genomes**
    (`GeneGenerator` over any instruction distribution) and **populations** (a generator whose
    elements are themselves generated collections or scored individuals): every element generator
    of the tie's catalogue, nested to any depth, yields a collection of exactly the configured size. -/
theorem catalogue_size (e : Elem) (n : Nat) (v : Val) (h : Reach (Elem.coll n e).sample v) :
    ∃ l, v = .list l ∧ l.length = n := by
  simp only [Elem.sample, map_eq, reach_bind, reach_pure] at h
  obtain ⟨l, hl, rfl⟩ := h
  exact ⟨l, rfl, generator_length _ l hl⟩

/-- A population of `m` genomes of `n` genes each: outer size `m`, *every* inner size `n`. -/
theorem population_of_genomes (e : Elem) (m n : Nat) (v : Val)
    (h : Reach (Elem.coll m (.coll n e)).sample v) :
    ∃ l, v = .list l ∧ l.length = m ∧ ∀ g ∈ l, ∃ genes, g = .list genes ∧ genes.length = n := by
  simp only [Elem.sample, map_eq, reach_bind, reach_pure] at h
  obtain ⟨l, hl, rfl⟩ := h
  obtain ⟨h1, h2⟩ := (generator_elements _ l).mp hl
  refine ⟨l, rfl, h1, ?_⟩
  intro g hg
  have := h2 g hg
  simp only [intoCollectionGenerator, reach_bind, reach_pure] at this
  obtain ⟨genes, hgen, rfl⟩ := this
  exact ⟨genes, rfl, generator_length _ genes hgen⟩

/-- A population of `m` scored individuals over genomes of `n` genes: `m` individuals, each
    carrying a genome of exactly `n` genes and the score of *that* genome. -/
theorem population_of_individuals (e : Elem) (m n : Nat) (v : Val)
    (h : Reach (Elem.coll m (.ind (.coll n e))).sample v) :
    ∃ l, v = .list l ∧ l.length = m ∧
      ∀ i ∈ l, ∃ genes, i = .list [.list genes, .int (Val.total (.list genes))] ∧ genes.length = n := by
  simp only [Elem.sample, map_eq, reach_bind, reach_pure] at h
  obtain ⟨l, hl, rfl⟩ := h
  obtain ⟨h1, h2⟩ := (generator_elements _ l).mp hl
  refine ⟨l, rfl, h1, ?_⟩
  intro i hi
  have := h2 i hi
  simp only [intoCollectionGenerator, bind_eq, pure_eq, reach_bind, reach_pure] at this
  obtain ⟨g, ⟨genes, hgen, rfl⟩, rfl⟩ := this
  exact ⟨genes, rfl, generator_length _ genes hgen⟩

/-- A gene is `Close` or a member of the instruction set, never anything else (instruction
    distribution built by `OneOfCloning::new` or `ChooseCloning::new` over `m ≥ 1` instructions). -/
theorem gene_member (cp : UInt32) (m : Nat) (k : InstrKind) (hk : k ≠ .probe) (hm : 0 < m) (v : Val)
    (h : Reach (Elem.gene cp m k).sample v) : v = .int (-1) ∨ ∃ j, j < m ∧ v = .int j := by
  have hne : List.range m ≠ [] := by
    intro h0; have := congrArg List.length h0; simp at this; omega
  simp only [Elem.sample, geneSample, bind_eq, req_def, bind_ask, bind_pure_left, reach_ask] at h
  obtain ⟨ans, hv, h⟩ := h
  cases ans <;> simp only [Prim.valid] at hv
  rename_i w
  dsimp only at h
  by_cases hlt : Float32.ofBits w.toUInt32 < Float32.ofBits cp
  · left
    rw [if_pos hlt] at h
    exact ((reach_pure _ _).mp h).symm
  · right
    rw [if_neg hlt] at h
    cases k with
    | probe => exact absurd rfl hk
    | oneOf =>
      simp only [instrSample] at h
      have hnew := (OneOfCloning.new_ok_iff (List.range m) ⟨List.range m, (List.range m).length, (List.range m).length⟩).mpr ⟨hne, rfl⟩
      rw [hnew] at h
      simp only [map_eq, OneOfCloning.sample, bind_eq, req_def, bind_ask, bind_pure_left, reach_ask] at h
      obtain ⟨a, hva, h⟩ := h
      cases a <;> simp only [Prim.valid] at hva
      rename_i idx
      have hidx : idx < m := by simpa using hva
      simp only [List.getElem?_range hidx, pure_eq, bind_pure_left, reach_pure] at h
      exact ⟨idx, hidx, by rw [← h]; rfl⟩
    | chooseCloning =>
      simp only [instrSample] at h
      have hnew := (Choose.new_ok_iff (List.range m) ⟨List.range m, (List.range m).length, (List.range m).length⟩).mpr ⟨hne, rfl⟩
      rw [hnew] at h
      simp only [map_eq, Choose.sample, bind_eq, req_def, bind_ask, bind_pure_left, reach_ask] at h
      obtain ⟨a, hva, h⟩ := h
      cases a <;> simp only [Prim.valid] at hva
      rename_i idx
      have hidx : idx < m := by simpa using hva
      simp only [List.getElem?_range hidx, pure_eq, bind_pure_left, reach_pure] at h
      exact ⟨idx, hidx, by rw [← h]; rfl⟩

/-- **Law of a generated collection**: under any law of the primitives the elements are
    independent draws of the element generator — the probability of a particular collection is the
    product of the element probabilities (and 0 for a collection of the wrong size). -/
theorem generator_law [DecidableEq α] (L : PrimLaw) (g : Generator (Rand α)) (xs : List α) :
    prob L g.sample (· = xs) =
      if xs.length = g.size then (xs.map (fun x => prob L g.elementGenerator (· = x))).prod else 0 := by
  rw [sample_eq_spec]
  generalize g.elementGenerator = elem
  generalize g.size = n
  induction n generalizing xs with
  | zero =>
    cases xs with
    | nil => simp [prob, specCollect]
    | cons x xs => simp [prob, specCollect]
  | succ n ih =>
    unfold prob at ih ⊢
    rw [specCollect_succ, expect_bind]
    cases xs with
    | nil =>
      simp [expect_bind, expect_zero]
    | cons y ys =>
      have step : ∀ x, expect L (Rand.bind (specCollect elem n) fun xs => Rand.pure (x :: xs))
            (fun a => if a = y :: ys then (1 : ℚ) else 0) =
          (if x = y then 1 else 0) * expect L (specCollect elem n) (fun a => if a = ys then 1 else 0) := by
        intro x
        rw [expect_bind, ← expect_const_mul]
        apply expect_congr
        intro zs
        by_cases h1 : x = y <;> by_cases h2 : zs = ys <;> simp [h1, h2]
      rw [expect_congr L elem _ _ step, expect_mul_const, ih ys]
      by_cases hl : ys.length = n
      · simp [hl]
      · simp [hl]

/-! ## 2. Uniform choices: construction -/

/-- **Empty sources are rejected at construction** — and only they: for each of the fourteen
    conversions and the two constructors, building fails (with `EmptySlice`) iff the source
    collection is empty.  (`macroOf`: the macro's pattern needs at least one item; see `macro_total`.) -/
theorem build_err_iff (f : Flavour) (hf : f ≠ .macroOf) (c : List α) :
    f.build c = .err .emptySlice ↔ c = [] := by
  cases f <;> first
    | exact absurd rfl hf
    | (simp only [Flavour.build, Conv.vecIntoOwned, Conv.vecToOwned, Conv.vecToRef, Conv.refVecIntoRef,
        Conv.refVecIntoOwned, Conv.arrIntoOwned, Conv.arrToOwned, Conv.arrToRef, Conv.refArrIntoRef,
        Conv.refArrIntoOwned, Conv.sliceIntoRef, Conv.sliceIntoOwned, Conv.sliceToRef, Conv.sliceToOwned]
       first
        | (cases h : mkOneOfCloning c with
           | error e => cases e; simp [Built.ofExcept, (mkOneOfCloning_err c _).mp h]
           | ok d => simp [Built.ofExcept, ((mkOneOfCloning_ok c d).mp h).1])
        | (cases h : mkChooseCloning c with
           | error e => cases e; simp [Built.ofExcept, (mkChooseCloning_err c _).mp h]
           | ok d => simp [Built.ofExcept, ((mkChooseCloning_ok c d).mp h).1])
        | (cases h : mkChooseRef c with
           | error e => cases e; simp [Built.ofExcept, (mkChooseRef_err c _).mp h]
           | ok d => simp [Built.ofExcept, ((mkChooseRef_ok c d).mp h).1]))

/-- Building never panics for the conversions and constructors, and a non-empty source always
    yields a distribution that stores exactly that collection with all three length copies equal
    to its length (`BuiltFrom`). -/
theorem build_ok (f : Flavour) (c : List α) (d : Dist α) :
    f.build c = .ok d → c ≠ [] ∧ BuiltFrom c d := by
  cases f <;>
    simp only [Flavour.build, Conv.vecIntoOwned, Conv.vecToOwned, Conv.vecToRef, Conv.refVecIntoRef,
        Conv.refVecIntoOwned, Conv.arrIntoOwned, Conv.arrToOwned, Conv.arrToRef, Conv.refArrIntoRef,
        Conv.refArrIntoOwned, Conv.sliceIntoRef, Conv.sliceIntoOwned, Conv.sliceToRef, Conv.sliceToOwned] <;>
    first
    | (cases h : mkOneOfCloning c with
       | error e => simp [Built.ofExcept]
       | ok d' =>
         obtain ⟨h1, rfl⟩ := (mkOneOfCloning_ok c d').mp h
         simp only [Built.ofExcept, Built.ok.injEq]
         rintro rfl; exact ⟨h1, .oneOf⟩)
    | (cases h : mkChooseCloning c with
       | error e => simp [Built.ofExcept]
       | ok d' =>
         obtain ⟨h1, rfl⟩ := (mkChooseCloning_ok c d').mp h
         simp only [Built.ofExcept, Built.ok.injEq]
         rintro rfl; exact ⟨h1, .chooseCloning⟩)
    | (cases h : mkChooseRef c with
       | error e => simp [Built.ofExcept]
       | ok d' =>
         obtain ⟨h1, rfl⟩ := (mkChooseRef_ok c d').mp h
         simp only [Built.ofExcept, Built.ok.injEq]
         rintro rfl; exact ⟨h1, .choose⟩)

/-- Every flavour succeeds on every non-empty source (so the theorems below are not vacuous). -/
theorem build_total (f : Flavour) (c : List α) (hc : c ≠ []) : ∃ d, f.build c = .ok d := by
  have h1 := (mkOneOfCloning_ok c (.oneOfCloning ⟨c, c.length, c.length⟩)).mpr ⟨hc, rfl⟩
  have h2 := (mkChooseCloning_ok c (.chooseCloning ⟨c, c.length, c.length⟩)).mpr ⟨hc, rfl⟩
  have h3 := (mkChooseRef_ok c (.choose ⟨c, c.length, c.length⟩)).mpr ⟨hc, rfl⟩
  cases f <;>
    simp [Flavour.build, Conv.vecIntoOwned, Conv.vecToOwned, Conv.vecToRef, Conv.refVecIntoRef,
        Conv.refVecIntoOwned, Conv.arrIntoOwned, Conv.arrToOwned, Conv.arrToRef, Conv.refArrIntoRef,
        Conv.refArrIntoOwned, Conv.sliceIntoRef, Conv.sliceIntoOwned, Conv.sliceToRef, Conv.sliceToOwned,
        h1, h2, h3, Built.ofExcept]

/-- `uniform_distribution_of![x₁, …, xₖ]` (k ≥ 1 by the macro's pattern) never hits its `unwrap`. -/
theorem macro_total (c : List α) (hc : c ≠ []) : Flavour.macroOf.build c ≠ .panic := by
  obtain ⟨d, h⟩ := build_total .macroOf c hc
  rw [h]; simp

/-- **`num_choices` reports the number of members the distribution was built from** (and it is
    non-zero, as the `NonZeroUsize` type demands), in every flavour. -/
theorem num_choices (f : Flavour) (c : List α) (d : Dist α) (h : f.build c = .ok d) :
    d.numChoices = c.length ∧ 0 < d.numChoices := by
  obtain ⟨hc, hb⟩ := build_ok f c d h
  have : 0 < c.length := List.length_pos_iff.mpr hc
  cases hb <;> exact ⟨rfl, this⟩

/-- The three length copies kept by `OneOfCloning` (collection, `Uniform` range, `num_choices`)
    agree for everything `new` returns; there is no mutator, so they agree forever. -/
theorem oneOf_invariant (c : List α) (d : OneOfCloning α) (h : OneOfCloning.new c = .ok d) :
    d.collection = c ∧ d.range = c.length ∧ d.numChoices = c.length := by
  obtain ⟨_, rfl⟩ := (OneOfCloning.new_ok_iff c d).mp h
  exact ⟨rfl, rfl, rfl⟩

/-! ## 3. Uniform choices: sampling -/

/-- **Only members are returned**: for every random stream a sample is position `i` of the source
    together with the member at that position — never a panic, never a foreign value — in the
    owning, borrowing and cloning flavours alike. -/
theorem sample_member (f : Flavour) (c : List α) (d : Dist α) (h : f.build c = .ok d)
    (r : Sampled α) (hr : Reach d.sample r) : ∃ i, ∃ hi : i < c.length, r = .value i c[i] := by
  obtain ⟨_, hb⟩ := build_ok f c d h
  obtain ⟨p, hp, hs⟩ := hb.sample_eq
  rw [hs, reach_ask] at hr
  obtain ⟨ans, hv, hr⟩ := hr
  rcases hp with rfl | rfl <;>
  · cases ans <;> simp only [Prim.valid] at hv
    rename_i idx
    simp only [List.getElem?_eq_getElem hv, reach_pure] at hr
    exact ⟨idx, hv, hr.symm⟩

/-- **Every member can be returned**: each position of the source is a possible sample. -/
theorem sample_every_member (f : Flavour) (c : List α) (d : Dist α) (h : f.build c = .ok d)
    (i : Nat) (hi : i < c.length) : Reach d.sample (.value i c[i]) := by
  obtain ⟨_, hb⟩ := build_ok f c d h
  obtain ⟨p, hp, hs⟩ := hb.sample_eq
  rw [hs, reach_ask]
  refine ⟨.nat i, ?_, ?_⟩
  · rcases hp with rfl | rfl <;> exact hi
  · simp [List.getElem?_eq_getElem hi]

/-- One sample consumes exactly one answer of the stream. -/
theorem sample_one_request (f : Flavour) (c : List α) (d : Dist α) (h : f.build c = .ok d)
    (a : Ans) (t : List Ans) : ∃ r, run d.sample (a :: t) = some (r, t) := by
  obtain ⟨_, hb⟩ := build_ok f c d h
  obtain ⟨p, _, hs⟩ := hb.sample_eq
  rw [hs]
  cases a with
  | nat idx =>
    cases hc : c[idx]? with
    | none => exact ⟨.panic, by simp [run, hc]⟩
    | some v => exact ⟨.value idx v, by simp [run, hc]⟩
  | _ => exact ⟨.panic, by simp [run]⟩

/-- **Each member with equal probability**: under the documented uniform law of
    `Uniform::new(0,n)` / `slice::Choose`, every position of the source is sampled with
    probability exactly `1 / len`, in every flavour. -/
theorem uniform_law [DecidableEq α] (L : PrimLaw) (hL : UniformLaw L) (f : Flavour) (c : List α)
    (d : Dist α) (h : f.build c = .ok d) (i : Nat) (hi : i < c.length) :
    prob L d.sample (· = .value i c[i]) = 1 / (c.length : ℚ) := by
  obtain ⟨_, hb⟩ := build_ok f c d h
  obtain ⟨p, hp, hs⟩ := hb.sample_eq
  have hLp : L p = (List.range c.length).map (fun j => (Ans.nat j, (1 : ℚ) / c.length)) := by
    rcases hp with rfl | rfl
    · exact (hL _).1
    · exact (hL _).2
  rw [hs]
  unfold prob
  rw [expect_ask, hLp, List.map_map]
  trans ((List.range c.length).map (fun j => if j = i then (1 : ℚ) / c.length else 0)).sum
  · congr 1
    apply List.map_congr_left
    intro j hj
    have hj : j < c.length := List.mem_range.mp hj
    simp only [Function.comp, List.getElem?_eq_getElem hj, expect_pure]
    by_cases hji : j = i
    · subst hji; simp
    · simp [hji]
  · rw [sum_range_ite_eq, if_pos hi]

/-- Value form of the law: a value `v` is returned with probability `count v / len` — equal shares
    for the members, repeated members counted as often as they occur. -/
theorem value_law [DecidableEq α] (L : PrimLaw) (hL : UniformLaw L) (f : Flavour) (c : List α)
    (d : Dist α) (h : f.build c = .ok d) (v : α) :
    prob L d.sample (fun r => r.val? = some v) = (c.count v : ℚ) / c.length := by
  obtain ⟨_, hb⟩ := build_ok f c d h
  obtain ⟨p, hp, hs⟩ := hb.sample_eq
  have hLp : L p = (List.range c.length).map (fun j => (Ans.nat j, (1 : ℚ) / c.length)) := by
    rcases hp with rfl | rfl
    · exact (hL _).1
    · exact (hL _).2
  rw [hs]
  unfold prob
  rw [expect_ask, hLp, List.map_map]
  trans ((List.range c.length).map (fun j => if c[j]? = some v then (1 : ℚ) / c.length else 0)).sum
  · congr 1
    apply List.map_congr_left
    intro j hj
    have hj : j < c.length := List.mem_range.mp hj
    simp only [Function.comp, List.getElem?_eq_getElem hj, expect_pure, Option.some.injEq]
    by_cases hv : c[j] = v <;> simp [hv, Sampled.val?]
  · rw [sum_range_ite_pred]; ring

/-! ## 4. Non-vacuity -/

/-- a generator of size 3 over a one-request element generator, run on a concrete tape -/
example : run (Generator.sample ⟨(Elem.probe 2).sample, 3⟩) [.nat 7, .nat 8, .nat 9, .nat 10] =
    some ([.int 7, .int 8, .int 9], [.nat 10]) := by
  simp [Generator.sample, collectLoop, Elem.sample, run]

example : Reach (Generator.sample ⟨(Elem.bool).sample, 2⟩) [.int 1, .int 0] := by
  rw [generator_elements]
  refine ⟨rfl, ?_⟩
  intro x hx
  simp only [Elem.sample, bind_eq, req_def, bind_ask, bind_pure_left, reach_ask]
  rcases List.mem_cons.mp hx with rfl | hx
  · exact ⟨.bool true, trivial, by simp⟩
  · simp only [List.mem_singleton] at hx; subst hx
    exact ⟨.bool false, trivial, by simp⟩

example : Flavour.vecIntoOwned.build [10, 20, 30] = .ok (.oneOfCloning ⟨[10, 20, 30], 3, 3⟩) := by decide
example : Flavour.sliceToRef.build ([] : List Nat) = .err .emptySlice := by decide
example : Flavour.macroOf.build [5] = .ok (.oneOfCloning ⟨[5], 1, 1⟩) := by decide
example : ∀ f ∈ Flavour.all, f ≠ .macroOf → f.build ([] : List Nat) = .err .emptySlice := by decide
example : ∀ f ∈ Flavour.all, (f.build [1, 2]).numChoices? = some 2 := by decide

/-- a law exists that satisfies the hypothesis of `uniform_law`/`value_law` -/
example : UniformLaw uniformOnly := uniformOnly_ok

example : prob uniformOnly (Dist.sample (.oneOfCloning ⟨[10, 20, 30, 20], 4, 4⟩))
    (fun r => r.val? = some 20) = 1 / 2 := by
  have := value_law uniformOnly uniformOnly_ok .vecIntoOwned [10, 20, 30, 20]
    (.oneOfCloning ⟨[10, 20, 30, 20], 4, 4⟩) (by decide) 20
  rw [this]
  have : List.count 20 [10, 20, 30, 20] = 2 := by decide
  rw [this]; norm_num

end Uec.Props.C18
