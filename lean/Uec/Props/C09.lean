/-
  C09 — A generation step atomically replaces the population with as many fresh children.

  Property theorems only.  `Uec.Generation` (Uec/Model/Generation.lean) is the code-shaped Impl
  model of `Generation::serial_next` / `par_next` and of `GenomeScorer::apply`; helper lemmas are in
  Uec/Lemmas/{RandRun,Generation}.lean.

  Reading guide.  A child maker is any function `cm : List ι → Rand (Except ε ι)` of the population
  it is shown and of the answers of the generator it is handed (`∀ cm`: all child-making operators).
  `Reach m a`: some sequence of valid rand answers makes `m` return `a` (so `∀ a, Reach m a → …` is
  "for every random stream").  `Rand.run m t`: run on an explicit answer tape `t`; `Consumes m segs xs`:
  running `m` on segment `segs[i]` consumes exactly that segment and yields `xs[i]`.
  For `par_next` the theorems hold for EVERY `Schedule` that schedules each position once
  (`Schedule.Valid`) and every family of per-worker tapes.  Rayon's real interleavings are not
  modelled (level: proof, partial): what is proved is that no linearisation of the executions, no
  assignment of children to workers, no number of in-flight children after a failure and no winner
  of the error race can break the guarantees.
-/
import Uec.Lemmas.Generation
namespace Uec.Props.C09
open Uec Uec.Generation Uec.Rand
variable {ι ε γ σ : Type}

/-! ## serial_next -/

/-- **Success replaces the population by exactly as many children, each made from the OLD
    population by its own application of the child maker**: the possible outcomes `(Ok, new)` are
    exactly the lists of `|pop|` possible successful results of `cm pop` — any combination of
    them (the children are separate applications, not copies of one draw). -/
theorem serial_ok (cm : ChildMaker ι ε) (pop new : List ι) :
    Reach (serialNext cm pop) (.ok (), new) ↔
      new.length = pop.length ∧ ∀ c ∈ new, Reach (cm pop) (.ok c) := by
  simp only [serialNext, bind_eq, pure_eq, reach_bind]
  constructor
  · rintro ⟨r, hr, h⟩
    cases r with
    | error e => simp at h
    | ok out =>
      simp only [reach_pure, Prod.mk.injEq, true_and] at h
      subst h
      obtain ⟨cs, hl, rfl, hcs⟩ := (reach_collectResults_ok _ _ _ _).mp hr
      exact ⟨by simp [hl], by simpa using hcs⟩
  · rintro ⟨hl, hcs⟩
    exact ⟨.ok new, (reach_collectResults_ok _ _ _ _).mpr ⟨new, hl, by simp, hcs⟩, by simp⟩

/-- **Any population type** (`Vec`, and set-like collections whose `from_iter` merges equal children): a
    successful step applies the child maker exactly `size(pop)` times - the size the population has when
    the step starts - always to that population, and holds `from_iter` of the children afterwards; a failed
    step leaves the population as it was.  In particular a second step on a population that shrank makes as
    many children as the population has *then*. -/
theorem serialP_ok {P : Type} (L : PopLike P ι) (cm : P → Rand (Except ε ι)) (pop new : P) :
    Reach (serialNextP L cm pop) (.ok (), new) ↔
      ∃ children : List ι, children.length = L.size pop ∧ (∀ c ∈ children, Reach (cm pop) (.ok c)) ∧
        new = L.ofList children := by
  simp only [serialNextP, bind_eq, pure_eq, reach_bind]
  constructor
  · rintro ⟨r, hr, h⟩
    cases r with
    | error e => simp at h
    | ok out =>
      simp only [reach_pure, Prod.mk.injEq, true_and] at h
      obtain ⟨cs, hl, hout, hcs⟩ := (reach_collectResults_ok _ _ _ _).mp hr
      simp only [List.nil_append] at hout
      subst hout
      exact ⟨out, hl, by simpa using hcs, by simpa using h.symm⟩
  · rintro ⟨cs, hl, hcs, rfl⟩
    exact ⟨.ok cs, (reach_collectResults_ok _ _ _ _).mpr ⟨cs, hl, by simp, hcs⟩, by simp⟩

theorem serialP_err {P : Type} (L : PopLike P ι) (cm : P → Rand (Except ε ι)) (pop after : P) (e : ε)
    (h : Reach (serialNextP L cm pop) (.error e, after)) : after = pop := by
  simp only [serialNextP, bind_eq, pure_eq, reach_bind] at h
  obtain ⟨r, _, h⟩ := h
  cases r with
  | error e' => simp only [reach_pure, Prod.mk.injEq] at h; exact h.2.symm
  | ok out => simp at h

/-- for `Vec` populations this is `serial_next` as modelled above -/
theorem serialP_vec (cm : ChildMaker ι ε) (pop : List ι) :
    serialNextP PopLike.vec cm pop = serialNext cm pop := rfl

/-- two consecutive successful steps: the second makes `size(p1)` children from `p1`, whatever size the
    population had before the first step -/
theorem serialP_two_steps {P : Type} (L : PopLike P ι) (cm : P → Rand (Except ε ι)) (p0 p1 p2 : P)
    (_h1 : Reach (serialNextP L cm p0) (.ok (), p1)) (h2 : Reach (serialNextP L cm p1) (.ok (), p2)) :
    ∃ children : List ι, children.length = L.size p1 ∧ (∀ c ∈ children, Reach (cm p1) (.ok c)) ∧
      p2 = L.ofList children :=
  (serialP_ok L cm p1 p2).mp h2

/-- a set-like population really can shrink: `from_iter` that removes duplicates, two equal children -/
example : Reach (serialNextP (ι := Nat) (ε := Unit) ⟨id, List.eraseDups⟩ (fun _ => .pure (.ok 7)) [1, 2]) (.ok (), [7]) :=
  (serialP_ok _ _ _ _).mpr ⟨[7, 7], rfl, by simp, by decide⟩

/-- **Failure is atomic**: if the step returns an error, the population held afterwards is exactly
    the old one, and the error is one the child maker can produce on the old population. -/
theorem serial_err (cm : ChildMaker ι ε) (pop after : List ι) (e : ε)
    (h : Reach (serialNext cm pop) (.error e, after)) :
    after = pop ∧ Reach (cm pop) (.error e) := by
  simp only [serialNext, bind_eq, pure_eq, reach_bind] at h
  obtain ⟨r, hr, h⟩ := h
  cases r with
  | ok out => simp at h
  | error e' =>
    simp only [reach_pure, Prod.mk.injEq, Except.error.injEq] at h
    obtain ⟨rfl, rfl⟩ := h
    exact ⟨rfl, (reach_collectResults_err _ _ _ _ hr).2⟩

/-- **Every position at which child creation may fail**: after any `k < |pop|` possible successes a
    possible failure of the next child makes the whole step fail with that error (and, by
    `serial_err`, leaves the population as it was). -/
theorem serial_err_at_every_position (cm : ChildMaker ι ε) (pop : List ι) (e : ε) (cs : List ι)
    (hk : cs.length < pop.length) (hcs : ∀ c ∈ cs, Reach (cm pop) (.ok c))
    (he : Reach (cm pop) (.error e)) : Reach (serialNext cm pop) (.error e, pop) := by
  simp only [serialNext, bind_eq, pure_eq, reach_bind]
  exact ⟨.error e, reach_collectResults_err_at _ _ _ e cs hk hcs he, by simp⟩

/-- All-or-nothing in one statement, for every random stream and every child maker. -/
theorem serial_atomic (cm : ChildMaker ι ε) (pop after : List ι) (r : Except ε Unit)
    (h : Reach (serialNext cm pop) (r, after)) :
    (r = .ok () ∧ after.length = pop.length) ∨ (∃ e, r = .error e ∧ after = pop) := by
  cases r with
  | ok u => cases u; exact .inl ⟨rfl, ((serial_ok cm pop after).mp h).1⟩
  | error e => exact .inr ⟨e, rfl, (serial_err cm pop after e h).1⟩

/-- Tape level, success: the answers of the one generator are consumed as `|pop|` consecutive,
    disjoint segments; child `i` is what `cm` makes of the OLD population on segment `i` — its own
    live randomness — and nothing beyond the last segment is read. -/
theorem serial_tape_ok (cm : ChildMaker ι ε) (pop new : List ι) (t r : List Ans)
    (h : run (serialNext cm pop) t = some ((.ok (), new), r)) :
    ∃ segs : List (List Ans), segs.length = pop.length ∧ new.length = pop.length ∧
      t = segs.flatten ++ r ∧ Consumes (cm pop) segs (new.map Except.ok) := by
  simp only [serialNext, bind_eq, pure_eq, run_bind] at h
  cases h1 : run (collectResults (cm pop) pop.length []) t with
  | none => simp [h1] at h
  | some p =>
    obtain ⟨x, t1⟩ := p
    simp only [h1, Option.bind_some] at h
    cases x with
    | error e => simp at h
    | ok out =>
      simp only [run_pure, Option.some.injEq, Prod.mk.injEq, true_and] at h
      obtain ⟨rfl, rfl⟩ := h
      obtain ⟨segs, cs, hl, rfl, ht, hc⟩ := run_collectResults_ok _ _ _ _ _ _ h1
      have := hc.length_eq
      simp only [List.length_map] at this
      exact ⟨segs, by omega, by simpa using hl, ht, by simpa using hc⟩

/-- Tape level, failure: the population is unchanged, the error is that of the FIRST failing child
    (all earlier children succeeded on their own segments), and no answer after the failing child's
    segment is read — no later child ran. -/
theorem serial_tape_err (cm : ChildMaker ι ε) (pop after : List ι) (e : ε) (t r : List Ans)
    (h : run (serialNext cm pop) t = some ((.error e, after), r)) :
    after = pop ∧ ∃ (segs : List (List Ans)) (cs : List ι) (seg : List Ans),
      cs.length < pop.length ∧ t = segs.flatten ++ seg ++ r ∧
      Consumes (cm pop) segs (cs.map Except.ok) ∧ run (cm pop) seg = some (.error e, []) := by
  simp only [serialNext, bind_eq, pure_eq, run_bind] at h
  cases h1 : run (collectResults (cm pop) pop.length []) t with
  | none => simp [h1] at h
  | some p =>
    obtain ⟨x, t1⟩ := p
    simp only [h1, Option.bind_some] at h
    cases x with
    | ok out => simp at h
    | error e' =>
      simp only [run_pure, Option.some.injEq, Prod.mk.injEq, Except.error.injEq] at h
      obtain ⟨⟨rfl, rfl⟩, rfl⟩ := h
      exact ⟨rfl, run_collectResults_err _ _ _ _ _ _ h1⟩

/-- Size 0: nothing is drawn, the (empty) population is replaced by an empty population. -/
theorem serial_empty (cm : ChildMaker ι ε) (t : List Ans) :
    run (serialNext cm []) t = some ((.ok (), []), t) := by
  simp [serialNext, collectResults]

/-- Size 1: exactly one application of the child maker to the old singleton population. -/
theorem serial_one (cm : ChildMaker ι ε) (x : ι) (r : Except ε Unit) (after : List ι) :
    Reach (serialNext cm [x]) (r, after) ↔
      (∃ c, Reach (cm [x]) (.ok c) ∧ r = .ok () ∧ after = [c]) ∨
      (∃ e, Reach (cm [x]) (.error e) ∧ r = .error e ∧ after = [x]) := by
  constructor
  · intro h
    cases r with
    | ok u =>
      cases u
      obtain ⟨hl, hc⟩ := (serial_ok cm [x] after).mp h
      match after, hl, hc with
      | [c], _, hc => exact .inl ⟨c, hc c (by simp), rfl, rfl⟩
    | error e =>
      obtain ⟨h1, h2⟩ := serial_err cm [x] after e h
      exact .inr ⟨e, h2, rfl, h1⟩
  · rintro (⟨c, hc, rfl, rfl⟩ | ⟨e, he, rfl, rfl⟩)
    · exact (serial_ok cm [x] [c]).mpr ⟨rfl, by simpa using hc⟩
    · exact serial_err_at_every_position cm [x] e [] (by simp) (by simp) he

/-! ## par_next, for every schedule -/

/-- **Parallel success, under every valid schedule and all worker tapes**: the new population has
    exactly `|pop|` individuals; all scheduled children were executed (`Executed`: each on its own
    segment of its worker's generator, segments of one worker consecutive and disjoint, always on the
    OLD population); and position `i` of the new population holds the child executed for position `i`. -/
theorem par_ok (cm : ChildMaker ι ε) (pop new : List ι) (sch : Schedule) (T T' : Tapes)
    (hv : sch.Valid pop.length) (h : parNext cm pop sch T = some (.ok (), new, T')) :
    new.length = pop.length ∧
      ∃ rs, Executed (cm pop) sch.order T rs T' ∧ rs.map Prod.fst = sch.order.map Slot.pos ∧
        ∀ i (hi : i < new.length), (i, Except.ok new[i]) ∈ rs := by
  unfold parNext at h
  cases h1 : parExec (cm pop) sch.extra sch.order none T with
  | none => simp [h1] at h
  | some p =>
    obtain ⟨rs, T1⟩ := p
    simp only [h1] at h
    cases h2 : errorsOf rs with
    | cons e0 es => simp [h2] at h
    | nil =>
      simp only [h2, Option.some.injEq, Prod.mk.injEq, true_and] at h
      obtain ⟨rfl, rfl⟩ := h
      have hcomp := parExec_complete _ _ _ _ _ _ h1 h2
      have hperm : (rs.map Prod.fst).Perm (List.range pop.length) := by rw [hcomp]; exact hv
      obtain ⟨a1, a2⟩ := assemble_spec pop.length rs hperm h2
      exact ⟨a1, rs, parExec_executed _ _ _ _ _ _ _ h1, hcomp, a2⟩

/-- Each new individual was produced by one application of the child maker to the previous,
    unmodified population on answers of its own. -/
theorem par_ok_children (cm : ChildMaker ι ε) (pop new : List ι) (sch : Schedule) (T T' : Tapes)
    (hv : sch.Valid pop.length) (h : parNext cm pop sch T = some (.ok (), new, T')) :
    ∀ c ∈ new, ∃ seg, run (cm pop) seg = some (.ok c, []) := by
  obtain ⟨_, rs, hex, _, hmem⟩ := par_ok cm pop new sch T T' hv h
  intro c hc
  obtain ⟨i, hi, rfl⟩ := List.getElem_of_mem hc
  exact hex.mem_run i _ (hmem i hi)

/-- **Parallel failure is atomic, under every schedule** (valid or not), whatever number of
    children was still in flight and whichever failure won the race: the population is exactly the old
    one and the reported error is the error of a child that really ran — on the old population, on
    its own segment — and failed. -/
theorem par_err (cm : ChildMaker ι ε) (pop after : List ι) (e : ε) (sch : Schedule) (T T' : Tapes)
    (h : parNext cm pop sch T = some (.error e, after, T')) :
    after = pop ∧ ∃ rs, Executed (cm pop) sch.order T rs T' ∧
      ∃ p seg, (p, Except.error e) ∈ rs ∧ run (cm pop) seg = some (.error e, []) := by
  unfold parNext at h
  cases h1 : parExec (cm pop) sch.extra sch.order none T with
  | none => simp [h1] at h
  | some p =>
    obtain ⟨rs, T1⟩ := p
    simp only [h1] at h
    cases h2 : errorsOf rs with
    | nil => simp [h2] at h
    | cons e0 es =>
      simp only [h2, Option.some.injEq, Prod.mk.injEq, Except.error.injEq] at h
      obtain ⟨he, rfl, rfl⟩ := h
      have hmem : e ∈ errorsOf rs := by
        rw [h2, ← he]
        have hlt : sch.pick % (es.length + 1) < (e0 :: es).length := by
          simpa using Nat.mod_lt _ (Nat.succ_pos _)
        simp only [List.getD, List.getElem?_eq_getElem hlt, Option.getD_some]
        exact List.getElem_mem _
      obtain ⟨p, hp⟩ := (errorsOf_mem rs e).mp hmem
      have hex := parExec_executed _ _ _ _ _ _ _ h1
      obtain ⟨seg, hseg⟩ := hex.mem_run p _ hp
      exact ⟨rfl, rs, hex, p, seg, hp, hseg⟩

/-- All-or-nothing for the parallel step, for every valid schedule. -/
theorem par_atomic (cm : ChildMaker ι ε) (pop after : List ι) (r : Except ε Unit) (sch : Schedule)
    (T T' : Tapes) (hv : sch.Valid pop.length) (h : parNext cm pop sch T = some (r, after, T')) :
    (r = .ok () ∧ after.length = pop.length) ∨ (∃ e, r = .error e ∧ after = pop) := by
  cases r with
  | ok u => cases u; exact .inl ⟨rfl, (par_ok cm pop after sch T T' hv h).1⟩
  | error e => exact .inr ⟨e, rfl, (par_err cm pop after e sch T T' h).1⟩

/-- Size 0 in parallel: no child maker call, no answer read, empty population, under every schedule
    that is valid for an empty population. -/
theorem par_empty (cm : ChildMaker ι ε) (sch : Schedule) (T : Tapes) (hv : sch.Valid 0) :
    parNext cm [] sch T = some (.ok (), [], T) := by
  have : sch.order = [] := by
    have := hv.length_eq
    simpa using this
  simp [parNext, this, parExec, errorsOf, assemble]

/-! ## GenomeScorer as child maker -/

/-- A `GenomeScorer` child is the genome its genome maker produced from the population, paired with
    the score of that very genome. -/
theorem genomeScorer_ok (gm : List (γ × σ) → Rand (Except ε γ)) (sc : γ → σ) (pop : List (γ × σ))
    (c : γ × σ) : Reach (genomeScorer gm sc pop) (.ok c) ↔ ∃ g, Reach (gm pop) (.ok g) ∧ c = (g, sc g) := by
  simp only [genomeScorer, bind_eq, pure_eq, reach_bind]
  constructor
  · rintro ⟨r, hr, h⟩
    cases r with
    | error e => simp at h
    | ok g => simp only [reach_pure, Except.ok.injEq] at h; exact ⟨g, hr, h.symm⟩
  · rintro ⟨g, hg, rfl⟩; exact ⟨.ok g, hg, by simp⟩

/-- A failing genome maker makes the child maker fail with the same error (nothing is scored). -/
theorem genomeScorer_err (gm : List (γ × σ) → Rand (Except ε γ)) (sc : γ → σ) (pop : List (γ × σ))
    (e : ε) : Reach (genomeScorer gm sc pop) (.error e) ↔ Reach (gm pop) (.error e) := by
  simp only [genomeScorer, bind_eq, pure_eq, reach_bind]
  constructor
  · rintro ⟨r, hr, h⟩
    cases r with
    | ok g => simp at h
    | error e' => simp only [reach_pure, Except.error.injEq] at h; subst h; exact hr
  · intro h; exact ⟨.error e, h, by simp⟩

/-- the scorer consumes no randomness: the requests of the child maker are those of its genome maker -/
theorem genomeScorer_run (gm : List (γ × σ) → Rand (Except ε γ)) (sc : γ → σ) (pop : List (γ × σ))
    (t : List Ans) : run (genomeScorer gm sc pop) t =
      (run (gm pop) t).map (fun x => (match x.1 with | .error e => .error e | .ok g => .ok (g, sc g), x.2)) := by
  simp only [genomeScorer, bind_eq, pure_eq, run_bind]
  cases run (gm pop) t with
  | none => rfl
  | some p => obtain ⟨x, t1⟩ := p; cases x <;> rfl

/-! ## Non-vacuity -/

section Examples
/-- a child maker that draws one word and fails (with the word as error) on odd words -/
def demoCm : ChildMaker Nat Nat := fun pop =>
  Rand.ask (.user 0) (fun a => match a with
    | .nat w => if w % 2 = 1 then Rand.pure (.error w) else Rand.pure (.ok (pop.length * 100 + w))
    | _ => Rand.pure (.error 0))

example : run (serialNext demoCm [1, 2, 3]) [.nat 4, .nat 6, .nat 8, .nat 9] =
    some ((.ok (), [304, 306, 308]), [.nat 9]) := by rfl
example : run (serialNext demoCm [1, 2, 3]) [.nat 4, .nat 7, .nat 8, .nat 9] =
    some ((.error 7, [1, 2, 3]), [.nat 8, .nat 9]) := by rfl

/-- two workers, positions interleaved: position order is restored, each worker's tape is read in its own order -/
def demoSched : Schedule := { order := [⟨2, 1⟩, ⟨0, 0⟩, ⟨1, 1⟩], extra := 5, pick := 0 }
def demoTapes : Tapes := fun th => if th = 0 then [.nat 10, .nat 12] else [.nat 20, .nat 22, .nat 24]

example : demoSched.Valid 3 := by unfold Schedule.Valid demoSched; decide
example : (parNext demoCm [1, 2, 3] demoSched demoTapes).map (fun x => (x.1, x.2.1, x.2.2 0, x.2.2 1)) =
    some (.ok (), [310, 322, 320], [.nat 12], [.nat 24]) := by rfl
/-- a failure on worker 1 while worker 0's child is in flight: error reported, population unchanged -/
example : (parNext demoCm [1, 2, 3] demoSched (fun th => if th = 0 then [.nat 10] else [.nat 21, .nat 22])).map
    (fun x => (x.1, x.2.1)) = some (.error 21, [1, 2, 3]) := by rfl
example : (Schedule.serial 4).Valid 4 := by unfold Schedule.Valid Schedule.serial; decide
/-- the hypotheses of `serial_err_at_every_position` are satisfiable: fail at position 1 of 3 -/
example : Reach (serialNext demoCm [1, 2, 3]) (.error 7, [1, 2, 3]) := by
  refine serial_err_at_every_position demoCm [1, 2, 3] 7 [304] (by simp) ?_ ?_
  · intro c hc
    simp only [List.mem_singleton] at hc; subst hc
    exact .ask (ans := .nat 4) trivial (by simp [Rand.reach_pure])
  · exact .ask (ans := .nat 7) trivial (by simp [Rand.reach_pure])
end Examples

end Uec.Props.C09
