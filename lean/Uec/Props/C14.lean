/-
  C14 — Composed operators run their parts in order and stop at the first failure.

  Property theorems only; helper lemmas are in `Uec.Lemmas.Operator`.
  Impl: `Uec.Oper.*` (typed generic combinators, one per Rust `impl`) and `Uec.Op.eval` (pipelines of
  any nesting over arbitrary component operators).  Spec: `Uec.exec` — explicit passing of the
  random stream from part to part, with the log of component calls.
  A random stream is a tape of answers; *every* tape is quantified over (valid answers or not).
-/
import Uec.Lemmas.Operator
namespace Uec.Props.C14
open Uec Uec.Spec

/-! ## 0. Streams -/

/-- `Rand.exec` is the framework's `Rand.run` together with `Rand.requests`. -/
theorem exec_is_run_and_requests {α : Type} (m : Rand α) (t : Tape) (a : α) (ps : List Prim) (t' : Tape) :
    Rand.exec m t = some (a, ps, t') ↔ Rand.run m t = some (a, t') ∧ Rand.requests m t = ps :=
  Rand.exec_eq_some

/-- Any operator reads the stream strictly front to back: what it leaves is a suffix of what it
    got, and it read exactly one answer per request. -/
theorem stream_consumed_front_to_back {α : Type} (m : Rand α) (t : Tape) (a : α) (ps : List Prim) (t' : Tape)
    (h : Rand.exec m t = some (a, ps, t')) : ∃ used, t = used ++ t' ∧ used.length = ps.length :=
  Rand.exec_consumes h

/-! ## 1. The combinators, for arbitrary component operators of arbitrary types -/
section typed
variable {ε ε₁ ε₂ α β γ : Type}

/-- **then**: `f` runs first on the stream; if it fails the error is `First e`, `g` is not run and
    the stream is as `f` left it; otherwise `g` receives `f`'s result and the stream as `f` left
    it, its error is tagged `Second`, and the requests are `f`'s followed by `g`'s. -/
theorem then_stream (f : Oper ε₁ α β) (g : Oper ε₂ β γ) (x : α) (t : Tape) :
    Rand.exec (Oper.thenOp f g x) t =
      match Rand.exec (f x) t with
      | none => none
      | some (.error e, ps, t') => some (.error (.first e), ps, t')
      | some (.ok y, ps, t') =>
        match Rand.exec (g y) t' with
        | none => none
        | some (.error e, qs, t'') => some (.error (.second e), ps ++ qs, t'')
        | some (.ok z, qs, t'') => some (.ok z, ps ++ qs, t'') :=
  Oper.thenOp_exec f g x t

/-- **and**: both operators get the *same* input `x`, `f` first, `g` on the stream `f` left;
    results are paired in that order; the first failure stops the pipeline. -/
theorem and_stream (f : Oper ε₁ α β) (g : Oper ε₂ α γ) (x : α) (t : Tape) :
    Rand.exec (Oper.andOp f g x) t =
      match Rand.exec (f x) t with
      | none => none
      | some (.error e, ps, t') => some (.error (.first e), ps, t')
      | some (.ok y, ps, t') =>
        match Rand.exec (g x) t' with
        | none => none
        | some (.error e, qs, t'') => some (.error (.second e), ps ++ qs, t'')
        | some (.ok z, qs, t'') => some (.ok (y, z), ps ++ qs, t'') :=
  Oper.andOp_exec f g x t

/-- **map** on a pair / 2-array: first element, then second, errors carry the element index. -/
theorem mapPair_stream (f : Oper ε α β) (x y : α) (t : Tape) :
    Rand.exec (Oper.mapPair f (x, y)) t =
      match Rand.exec (f x) t with
      | none => none
      | some (.error e, ps, t') => some (.error ⟨e, 0⟩, ps, t')
      | some (.ok a, ps, t') =>
        match Rand.exec (f y) t' with
        | none => none
        | some (.error e, qs, t'') => some (.error ⟨e, 1⟩, ps ++ qs, t'')
        | some (.ok b, qs, t'') => some (.ok (a, b), ps ++ qs, t'') :=
  Oper.mapPair_exec f x y t

/-- **map** on a vector succeeds exactly when the elements, taken in order on the shared stream,
    all succeed; the results are in element order (vectors of any length, the empty one included). -/
theorem mapVec_ok_iff (f : Oper ε α β) (xs : List α) (t : Tape) (ys : List β) (ps : List Prim) (t' : Tape) :
    Rand.exec (Oper.mapVec f xs) t = some (.ok ys, ps, t') ↔ Oper.Chain f xs t ys ps t' :=
  Oper.mapVecFrom_ok_iff f 0 xs t ys ps t'

theorem mapVec_ok_length (f : Oper ε α β) (xs : List α) (t : Tape) (ys : List β) (ps : List Prim) (t' : Tape)
    (h : Rand.exec (Oper.mapVec f xs) t = some (.ok ys, ps, t')) : ys.length = xs.length :=
  ((mapVec_ok_iff f xs t ys ps t').mp h).length

/-- **map** on a vector fails with `MapError(e, j)` exactly when the elements before position `j`
    succeed in order, element `j` fails with `e` on the stream they left, and nothing after it is
    touched: the requests are those of elements `0..=j`, the stream is as element `j` left it. -/
theorem mapVec_err_iff (f : Oper ε α β) (xs : List α) (t : Tape) (e : ε) (j : Nat) (ps : List Prim) (t' : Tape) :
    Rand.exec (Oper.mapVec f xs) t = some (.error ⟨e, j⟩, ps, t') ↔
      ∃ pre x post ys qs t1 rs, xs = pre ++ x :: post ∧ j = pre.length ∧
        Oper.Chain f pre t ys qs t1 ∧ Rand.exec (f x) t1 = some (.error e, rs, t') ∧ ps = qs ++ rs := by
  have := Oper.mapVecFrom_err_iff f 0 xs t e j ps t'
  simpa [Oper.mapVec] using this

/-- **repetition** applies the operator `N` times to copies of the input: it is `map` over
    `N` copies (for every `N`, 0 included), with the component's error passed through untagged. -/
theorem repeat_is_map_over_copies (f : Oper ε α β) (n : Nat) (x : α) (t : Tape) :
    Rand.exec (Oper.repeatN f n x) t =
      match Rand.exec (Oper.mapVec f (List.replicate n x)) t with
      | none => none
      | some (r, ps, t') => some (mapExcept (·.err) id r, ps, t') :=
  Oper.repeatN_eq_mapVec f n x t 0

/-- identity, constant: the value, no request, the stream untouched. -/
theorem identity_adds_nothing (x : α) (t : Tape) :
    Rand.exec ((Oper.identity : Oper ε α α) x) t = some (.ok x, [], t) := rfl

theorem constant_adds_nothing (v : β) (x : α) (t : Tape) :
    Rand.exec ((Oper.constant v : Oper ε α β) x) t = some (.ok v, [], t) := rfl

/-- `Select` / `Mutate` / `Recombine` around a selector / mutator / recombinator, by value or by
    reference, *are* that selector / mutator / recombinator. -/
theorem wrappers_add_nothing (inner : Oper ε α β) :
    Oper.wrap inner = inner ∧ Oper.byRef inner = inner ∧ Oper.wrap (Oper.byRef inner) = inner :=
  ⟨rfl, rfl, rfl⟩

/-- `GenomeScorer`: the genome maker's requests only; on success the individual carries exactly the
    genome made and the scorer's result for that genome; on failure the maker's error, unscored. -/
theorem genomeScorer_stream {ι σ : Type} (gm : Oper ε α β) (sc : β → σ) (mk : β → σ → ι) (x : α) (t : Tape) :
    Rand.exec (Oper.genomeScorer gm sc mk x) t =
      match Rand.exec (gm x) t with
      | none => none
      | some (.error e, ps, t') => some (.error e, ps, t')
      | some (.ok g, ps, t') => some (.ok (mk g (sc g)), ps, t') := by
  unfold Oper.genomeScorer
  rw [Rand.exec_bind]
  cases Rand.exec (gm x) t with
  | none => rfl
  | some r => obtain ⟨r, ps, t'⟩ := r; cases r <;> simp

end typed

/-! ## 2. Pipelines nested to any depth -/

/-- **Refinement**: for every shape `op` (any nesting, arbitrary component operators at the
    leaves), every input and every stream, the code-shaped pipeline yields exactly the result, the
    request sequence and the remaining stream the stream-passing Spec prescribes. -/
theorem spec_refinement (op : Op) (x : Val) (t : Tape) :
    Rand.exec (op.eval x) t = (exec op x t).map Out.vis := by
  induction op generalizing x t with
  | leaf n f =>
    simp only [Op.eval, exec]
    cases Rand.exec (f x) t with
    | none => rfl
    | some r => obtain ⟨r, ps, t'⟩ := r; rfl
  | then_ f g ihf ihg =>
    simp only [Op.eval, exec, Rand.exec_mapRes, Oper.thenOp_exec, ihf]
    cases exec f x t with
    | none => rfl
    | some o =>
      obtain ⟨r, ps, t', cs⟩ := o
      cases r with
      | error e => simp [Out.vis, mapExcept, OpErr.ofThen]
      | ok y =>
        simp only [Option.map_some, Out.vis, ihg]
        cases exec g y t' with
        | none => rfl
        | some o' =>
          obtain ⟨r', ps', t'', cs'⟩ := o'
          cases r' <;> simp [Out.vis, mapExcept, OpErr.ofThen]
  | and_ f g ihf ihg =>
    simp only [Op.eval, exec, Rand.exec_mapRes, Oper.andOp_exec, ihf, runAll]
    cases exec f x t with
    | none => rfl
    | some o =>
      obtain ⟨r, ps, t', cs⟩ := o
      cases r with
      | error e => simp [Out.vis, mapExcept, OpErr.ofAnd, pack, andTag]
      | ok y =>
        simp only [Option.map_some, Out.vis, ihg]
        cases exec g x t' with
        | none => rfl
        | some o' =>
          obtain ⟨r', ps', t'', cs'⟩ := o'
          cases r' <;> simp [Out.vis, mapExcept, OpErr.ofAnd, pack, andTag, mkPair]
  | map f ih =>
    have pairCase : ∀ (a b : Val) (mk : Val × Val → Val) (mk' : List Val → Val),
        (∀ a b, mk' [a, b] = mk (a, b)) →
        Rand.exec ((Oper.mapPair f.eval (a, b)).mapRes OpErr.ofMap mk) t =
          (pack mk' (runAll .map 0 [exec f a, exec f b] t)).map Out.vis := by
      intro a b mk mk' hmk
      simp only [Rand.exec_mapRes, Oper.mapPair_exec, ih, runAll]
      cases exec f a t with
      | none => rfl
      | some o =>
        obtain ⟨r, ps, t', cs⟩ := o
        cases r with
        | error e => simp [Out.vis, mapExcept, OpErr.ofMap, pack]
        | ok y =>
          simp only [Option.map_some, Out.vis]
          cases exec f b t' with
          | none => rfl
          | some o' =>
            obtain ⟨r', ps', t'', cs'⟩ := o'
            cases r' <;> simp [Out.vis, mapExcept, OpErr.ofMap, pack, hmk]
    cases x with
    | leaf n => simp [Op.eval, exec, Out.vis]
    | ind g s => simp [Op.eval, exec, Out.vis]
    | pair a b =>
      simp only [Op.eval, exec]
      exact pairCase a b _ _ (by intro a b; rfl)
    | arr l =>
      match l with
      | [] => simp [Op.eval, exec, Out.vis]
      | [_] => simp [Op.eval, exec, Out.vis]
      | _ :: _ :: _ :: _ => simp [Op.eval, exec, Out.vis]
      | [a, b] =>
        simp only [Op.eval, exec]
        exact pairCase a b _ _ (by intro a b; rfl)
    | vec l =>
      simp only [Op.eval, exec, Oper.mapVec, Rand.exec_mapRes]
      have := mapVecFrom_runAll f.eval (exec f) ih 0 l t
      cases h1 : Rand.exec (Oper.mapVecFrom f.eval 0 l) t with
      | none =>
        rw [h1] at this
        cases h2 : runAll OpErr.map 0 (List.map (exec f) l) t with
        | none => simp [pack]
        | some r => rw [h2] at this; simp at this
      | some r1 =>
        rw [h1] at this
        cases h2 : runAll OpErr.map 0 (List.map (exec f) l) t with
        | none => rw [h2] at this; simp at this
        | some r2 =>
          rw [h2] at this
          obtain ⟨r1, qs1, t1⟩ := r1
          obtain ⟨r2, qs2, t2, cs2⟩ := r2
          simp only [Option.map_some, visAll, Option.some.injEq, Prod.mk.injEq] at this
          obtain ⟨e1, e2, e3⟩ := this
          subst e2 e3
          cases r1 with
          | error e =>
            simp only [mapExcept] at e1
            subst e1
            simp [pack, Out.vis, mapExcept]
          | ok ys =>
            simp only [mapExcept, id] at e1
            subst e1
            simp [pack, Out.vis, mapExcept]
  | repeat_ n f ih =>
    simp only [Op.eval, exec, Rand.exec_mapRes]
    rw [repeatN_runAll f.eval (exec f) ih 0 n x t]
    cases runAll (fun e _ => e) 0 (List.replicate n (exec f x)) t with
    | none => rfl
    | some r =>
      obtain ⟨r, qs, t', cs⟩ := r
      cases r <;> simp [pack, Out.vis, visAll, mapExcept]
  | identity => simp [Op.eval, exec, Oper.identity, Out.vis]
  | constant v => simp [Op.eval, exec, Oper.constant, Out.vis]
  | wrap k f ih => cases k <;> simp [Op.eval, exec, Oper.wrap, Oper.byRef, ih]
  | genomeExtractor => cases x <;> simp [Op.eval, exec, Out.vis]
  | genomeScorer gm sc ih =>
    simp only [Op.eval, exec, Oper.genomeScorer, Rand.exec_bind, ih]
    cases exec gm x t with
    | none => rfl
    | some o =>
      obtain ⟨r, ps, t', cs⟩ := o
      cases r <;> simp [Out.vis]

/-- The Spec's own call log obeys the discipline stated in `call_discipline`. -/
theorem spec_call_discipline (op : Op) (x : Val) (t : Tape) (o : Out) (h : exec op x t = some o) :
    Inv (isErr o.result) o.reqs o.calls := by
  induction op generalizing x t o with
  | leaf n f =>
    simp only [exec] at h
    cases hf : Rand.exec (f x) t with
    | none => simp [hf] at h
    | some r =>
      obtain ⟨r, ps, t'⟩ := r
      simp only [hf, Option.some.injEq] at h
      subst h
      refine ⟨by simp, ?_⟩
      intro pre c post hc hfail
      cases pre with
      | nil =>
        simp only [List.nil_append, List.cons.injEq] at hc
        obtain ⟨rfl, rfl⟩ := hc
        exact ⟨rfl, hfail⟩
      | cons d ds =>
        simp only [List.cons_append, List.cons.injEq] at hc
        have := hc.2
        simp at this
  | then_ f g ihf ihg =>
    simp only [exec] at h
    cases hf : exec f x t with
    | none => simp [hf] at h
    | some of =>
      have i1 := ihf x t of hf
      obtain ⟨r, ps, t', cs⟩ := of
      simp only [hf] at h
      cases r with
      | error e =>
        simp only [Option.some.injEq] at h
        subst h
        exact i1
      | ok y =>
        simp only at h
        cases hg : exec g y t' with
        | none => simp [hg] at h
        | some og =>
          have i2 := ihg y t' og hg
          obtain ⟨r', ps', t'', cs'⟩ := og
          simp only [hg, Option.some.injEq] at h
          subst h
          have := Inv.append i1 i2
          cases r' <;> exact this
  | and_ f g ihf ihg =>
    simp only [exec] at h
    refine pack_inv _ _ ?_ o h
    intro r qs t' cs hr
    refine runAll_inv _ _ ?_ 0 t r qs t' cs hr
    intro p hp
    simp only [List.mem_cons, List.not_mem_nil, or_false] at hp
    rcases hp with rfl | rfl
    · exact fun t o => ihf x t o
    · exact fun t o => ihg x t o
  | map f ih =>
    have pairCase : ∀ (a b : Val) (mk : List Val → Val), pack mk (runAll .map 0 [exec f a, exec f b] t) = some o →
        Inv (isErr o.result) o.reqs o.calls := by
      intro a b mk h
      refine pack_inv _ _ ?_ o h
      intro r qs t' cs hr
      refine runAll_inv _ _ ?_ 0 t r qs t' cs hr
      intro p hp
      simp only [List.mem_cons, List.not_mem_nil, or_false] at hp
      rcases hp with rfl | rfl
      · exact fun t o => ih a t o
      · exact fun t o => ih b t o
    cases x with
    | leaf n => simp only [exec, Option.some.injEq] at h; subst h; exact Inv.nil _
    | ind g s => simp only [exec, Option.some.injEq] at h; subst h; exact Inv.nil _
    | pair a b => simp only [exec] at h; exact pairCase a b _ h
    | arr l =>
      match l with
      | [] => simp only [exec, Option.some.injEq] at h; subst h; exact Inv.nil _
      | [_] => simp only [exec, Option.some.injEq] at h; subst h; exact Inv.nil _
      | _ :: _ :: _ :: _ => simp only [exec, Option.some.injEq] at h; subst h; exact Inv.nil _
      | [a, b] => simp only [exec] at h; exact pairCase a b _ h
    | vec l =>
      simp only [exec] at h
      refine pack_inv _ _ ?_ o h
      intro r qs t' cs hr
      refine runAll_inv _ _ ?_ 0 t r qs t' cs hr
      intro p hp
      simp only [List.mem_map] at hp
      obtain ⟨y, _, rfl⟩ := hp
      exact fun t o => ih y t o
  | repeat_ n f ih =>
    simp only [exec] at h
    refine pack_inv _ _ ?_ o h
    intro r qs t' cs hr
    refine runAll_inv _ _ ?_ 0 t r qs t' cs hr
    intro p hp
    rw [List.mem_replicate] at hp
    obtain ⟨_, rfl⟩ := hp
    exact fun t o => ih x t o
  | identity => simp only [exec, Option.some.injEq] at h; subst h; exact Inv.nil _
  | constant v => simp only [exec, Option.some.injEq] at h; subst h; exact Inv.nil _
  | wrap k f ih => simp only [exec] at h; exact ih x t o h
  | genomeExtractor =>
    cases x <;> (simp only [exec, Option.some.injEq] at h; subst h; exact Inv.nil _)
  | genomeScorer gm sc ih =>
    simp only [exec] at h
    cases hg : exec gm x t with
    | none => simp [hg] at h
    | some og =>
      have i1 := ih x t og hg
      obtain ⟨r, ps, t', cs⟩ := og
      simp only [hg, Option.some.injEq] at h
      subst h
      cases r <;> exact i1

theorem spec_error_locates (op : Op) (x : Val) (t : Tape) (o : Out) (e : OpErr)
    (h : exec op x t = some o) (he : o.result = .error e) : Locates op e := by
  induction op generalizing x t o e with
  | leaf n f =>
    simp only [exec] at h
    cases hf : Rand.exec (f x) t with
    | none => simp [hf] at h
    | some r =>
      obtain ⟨r, ps, t'⟩ := r
      simp only [hf, Option.some.injEq] at h
      subst h
      simp only at he
      subst he
      exact ⟨x, t, ps, t', hf⟩
  | then_ f g ihf ihg =>
    simp only [exec] at h
    cases hf : exec f x t with
    | none => simp [hf] at h
    | some of =>
      obtain ⟨r, ps, t', cs⟩ := of
      simp only [hf] at h
      cases r with
      | error e1 =>
        simp only [Option.some.injEq] at h
        subst h
        simp only [Except.error.injEq] at he
        subst he
        exact ihf x t _ e1 hf rfl
      | ok y =>
        simp only at h
        cases hg : exec g y t' with
        | none => simp [hg] at h
        | some og =>
          obtain ⟨r', ps', t'', cs'⟩ := og
          simp only [hg, Option.some.injEq] at h
          subst h
          cases r' with
          | error e2 =>
            simp only [Except.error.injEq] at he
            subst he
            exact ihg y t' _ e2 hg rfl
          | ok z => simp at he
  | and_ f g ihf ihg =>
    simp only [exec] at h
    obtain ⟨qs, t', cs, hr⟩ := pack_err _ _ o e h he
    obtain ⟨e0, j, h1, h2, h3, h4⟩ := runAll_err andTag
      (fun j e => if j = 0 then Locates f e else Locates g e) _ 0 (by
        intro k p hk
        match k with
        | 0 =>
          simp only [List.getElem?_cons_zero, Option.some.injEq] at hk
          subst hk
          exact fun t o e h he => by simpa using ihf x t o e h he
        | 1 =>
          simp only [List.getElem?_cons_succ, List.getElem?_cons_zero, Option.some.injEq] at hk
          subst hk
          exact fun t o e h he => by simpa using ihg x t o e h he
        | k + 2 => simp at hk) t e qs t' cs hr
    subst h1
    by_cases hj : j = 0
    · subst hj; simpa [andTag, Locates] using h2
    · simp only [hj, if_false] at h2; simpa [andTag, hj, Locates] using h2
  | map f ih =>
    have pairCase : ∀ (a b : Val) (mk : List Val → Val),
        pack mk (runAll .map 0 [exec f a, exec f b] t) = some o → Locates (.map f) e := by
      intro a b mk h
      obtain ⟨qs, t', cs, hr⟩ := pack_err _ _ o e h he
      obtain ⟨e0, j, h1, h2, h3, h4⟩ := runAll_err .map (fun _ e => Locates f e) _ 0 (by
        intro k p hk
        match k with
        | 0 =>
          simp only [List.getElem?_cons_zero, Option.some.injEq] at hk
          subst hk
          exact fun t o e h he => ih a t o e h he
        | 1 =>
          simp only [List.getElem?_cons_succ, List.getElem?_cons_zero, Option.some.injEq] at hk
          subst hk
          exact fun t o e h he => ih b t o e h he
        | k + 2 => simp at hk) t e qs t' cs hr
      subst h1
      simpa [Locates] using h2
    have illCase : some (⟨.error .illTyped, [], t, []⟩ : Out) = some o → Locates (.map f) e := by
      intro h
      simp only [Option.some.injEq] at h
      subst h
      simp only [Except.error.injEq] at he
      subst he
      simp [Locates]
    cases x with
    | leaf n => simp only [exec] at h; exact illCase h
    | ind g s => simp only [exec] at h; exact illCase h
    | pair a b => simp only [exec] at h; exact pairCase a b _ h
    | arr l =>
      match l with
      | [] => simp only [exec] at h; exact illCase h
      | [_] => simp only [exec] at h; exact illCase h
      | _ :: _ :: _ :: _ => simp only [exec] at h; exact illCase h
      | [a, b] => simp only [exec] at h; exact pairCase a b _ h
    | vec l =>
      simp only [exec] at h
      obtain ⟨qs, t', cs, hr⟩ := pack_err _ _ o e h he
      obtain ⟨e0, j, h1, h2, h3, h4⟩ := runAll_err .map (fun _ e => Locates f e) _ 0 (by
        intro k p hk
        simp only [List.getElem?_map, Option.map_eq_some_iff] at hk
        obtain ⟨y, _, rfl⟩ := hk
        exact fun t o e h he => ih y t o e h he) t e qs t' cs hr
      subst h1
      simpa [Locates] using h2
  | repeat_ n f ih =>
    simp only [exec] at h
    obtain ⟨qs, t', cs, hr⟩ := pack_err _ _ o e h he
    obtain ⟨e0, j, h1, h2, h3, h4⟩ := runAll_err (fun e _ => e) (fun _ e => Locates f e) _ 0 (by
        intro k p hk
        rw [List.getElem?_replicate] at hk
        split at hk
        · simp only [Option.some.injEq] at hk
          subst hk
          exact fun t o e h he => ih x t o e h he
        · simp at hk) t e qs t' cs hr
    subst h1
    exact h2
  | identity => simp only [exec, Option.some.injEq] at h; subst h; simp at he
  | constant v => simp only [exec, Option.some.injEq] at h; subst h; simp at he
  | wrap k f ih => simp only [exec] at h; exact ih x t o e h he
  | genomeExtractor =>
    cases x <;> (simp only [exec, Option.some.injEq] at h; subst h; simp at he; try (subst he; trivial))
  | genomeScorer gm sc ih =>
    simp only [exec] at h
    cases hg : exec gm x t with
    | none => simp [hg] at h
    | some og =>
      obtain ⟨r, ps, t', cs⟩ := og
      simp only [hg, Option.some.injEq] at h
      subst h
      cases r with
      | error e1 =>
        simp only [Except.error.injEq] at he
        subst he
        exact ih x t _ e1 hg rfl
      | ok g => simp at he

/-- **Call discipline** (left to right, stop at the first failure): whatever the pipeline does on
    a stream is accounted for by a log of component calls such that the pipeline's requests are
    exactly the calls' requests concatenated in call order (combinators, identity, constant,
    extractor and wrappers draw nothing themselves), and a failed call is the *last* call (nothing
    is run and nothing is drawn after it) and makes the pipeline fail. -/
theorem call_discipline (op : Op) (x : Val) (t : Tape) (r : Except OpErr Val) (ps : List Prim) (t' : Tape)
    (h : Rand.exec (op.eval x) t = some (r, ps, t')) :
    ∃ calls : List Call,
      ps = calls.flatMap (·.reqs) ∧
      ∀ pre c post, calls = pre ++ c :: post → c.failed = true → post = [] ∧ isErr r = true := by
  rw [spec_refinement] at h
  cases ho : Spec.exec op x t with
  | none => simp [ho] at h
  | some o =>
    simp only [ho, Option.map_some, Out.vis, Option.some.injEq, Prod.mk.injEq] at h
    obtain ⟨rfl, rfl, rfl⟩ := h
    exact ⟨o.calls, spec_call_discipline op x t o ho⟩

/-- **The error identifies the failing part**: an error coming out of a pipeline spells a path
    through its shape (`First`/`Second` at each `then`/`and`, the element index at each `map`) down
    to the component operator that produced the innermost error. -/
theorem error_identifies_part (op : Op) (x : Val) (t : Tape) (e : OpErr) (ps : List Prim) (t' : Tape)
    (h : Rand.exec (op.eval x) t = some (.error e, ps, t')) : Locates op e := by
  rw [spec_refinement] at h
  cases ho : Spec.exec op x t with
  | none => simp [ho] at h
  | some o =>
    simp only [ho, Option.map_some, Out.vis, Option.some.injEq, Prod.mk.injEq] at h
    exact spec_error_locates op x t o e ho h.1

/-- In terms of the framework's `run`/`requests`: if the first part fails, the composed pipeline
    fails with `First`, issues exactly the first part's requests, and the stream is where the first
    part left it — the second part neither ran nor drew. -/
theorem then_first_failure_stops (f g : Op) (x : Val) (t : Tape) (e : OpErr) (t' : Tape)
    (h : Rand.run (f.eval x) t = some (.error e, t')) :
    Rand.run ((Op.then_ f g).eval x) t = some (.error (.thenFirst e), t') ∧
    Rand.requests ((Op.then_ f g).eval x) t = Rand.requests (f.eval x) t := by
  have h1 : Rand.exec (f.eval x) t = some (.error e, Rand.requests (f.eval x) t, t') :=
    Rand.exec_eq_some.mpr ⟨h, rfl⟩
  have h2 : Rand.exec ((Op.then_ f g).eval x) t =
      some (.error (.thenFirst e), Rand.requests (f.eval x) t, t') := by
    simp only [Op.eval, Rand.exec_mapRes, Oper.thenOp_exec, h1, mapExcept, OpErr.ofThen]
  exact Rand.exec_eq_some.mp h2

/-- …and if it succeeds, the second part sees its result and the stream it left. -/
theorem then_feeds_second (f g : Op) (x y : Val) (t t' : Tape) (r : Except OpErr Val) (t'' : Tape)
    (h : Rand.run (f.eval x) t = some (.ok y, t')) (hg : Rand.run (g.eval y) t' = some (r, t'')) :
    Rand.run ((Op.then_ f g).eval x) t = some (mapExcept OpErr.thenSecond id r, t'') ∧
    Rand.requests ((Op.then_ f g).eval x) t = Rand.requests (f.eval x) t ++ Rand.requests (g.eval y) t' := by
  have h1 : Rand.exec (f.eval x) t = some (.ok y, Rand.requests (f.eval x) t, t') :=
    Rand.exec_eq_some.mpr ⟨h, rfl⟩
  have h2 : Rand.exec (g.eval y) t' = some (r, Rand.requests (g.eval y) t', t'') :=
    Rand.exec_eq_some.mpr ⟨hg, rfl⟩
  have h3 : Rand.exec ((Op.then_ f g).eval x) t =
      some (mapExcept OpErr.thenSecond id r, Rand.requests (f.eval x) t ++ Rand.requests (g.eval y) t', t'') := by
    simp only [Op.eval, Rand.exec_mapRes, Oper.thenOp_exec, h1, h2]
    cases r <;> simp [mapExcept, OpErr.ofThen]
  exact Rand.exec_eq_some.mp h3

/-- wrappers at any place of a pipeline change nothing -/
theorem wrap_transparent (k : WrapKind) (f : Op) : (Op.wrap k f).eval = f.eval := by
  cases k <;> rfl

/-- the `Composable` convenience methods are the combinators they are defined by -/
theorem composable_methods (f g : Op) (n : Nat) (sc : Val → Val) :
    Op.thenMap f g = .then_ f (.map g) ∧ Op.applyTwice f = .repeat_ 2 f ∧
    Op.applyNTimes n f = .repeat_ n f ∧ Op.mapMethod f g = .map g ∧
    Op.wrapScorer f sc = .genomeScorer f sc := ⟨rfl, rfl, rfl, rfl, rfl⟩

/-! ## 3. Non-vacuity: a concrete pipeline with failing parts at different places -/

/-- a component that draws one coin and fails on `false` -/
def coin (id : Nat) : Oper OpErr Val Val := fun x =>
  .ask .bool fun
    | .bool true => .pure (.ok x)
    | _ => .pure (.error (.own id 0))

def demo : Op := .then_ (.leaf 1 (coin 1)) (.map (.and_ (.leaf 2 (coin 2)) .identity))

/-- all parts succeed: five coins drawn (one, then two per element … here one per element), rest untouched -/
example : Rand.exec (demo.eval (.vec [.leaf 5, .leaf 6])) [.bool true, .bool true, .bool true, .nat 9] =
    some (.ok (.vec [.pair (.leaf 5) (.leaf 5), .pair (.leaf 6) (.leaf 6)]), [.bool, .bool, .bool], [.nat 9]) := rfl

/-- the first part fails: one request, nothing else drawn -/
example : Rand.exec (demo.eval (.vec [.leaf 5, .leaf 6])) [.bool false, .bool true, .bool true] =
    some (.error (.thenFirst (.own 1 0)), [.bool], [.bool true, .bool true]) := rfl

/-- element 1 of the map fails inside the `and`: path Second / element 1 / First; the element after
    it is never touched (its coin stays on the stream) -/
example : Rand.exec (demo.eval (.vec [.leaf 5, .leaf 6, .leaf 7])) [.bool true, .bool true, .bool false, .bool true] =
    some (.error (.thenSecond (.map (.andFirst (.own 2 0)) 1)), [.bool, .bool, .bool], [.bool true]) := rfl

example : Locates demo (.thenSecond (.map (.andFirst (.own 2 0)) 1)) :=
  ⟨.leaf 0, [.bool false], [.bool], [], rfl⟩

/-- repetition zero times draws nothing -/
example : Rand.exec ((Op.repeat_ 0 (.leaf 1 (coin 1))).eval (.leaf 3)) [.bool false] =
    some (.ok (.arr []), [], [.bool false]) := rfl

example : Rand.exec ((Op.repeat_ 3 (.leaf 1 (coin 1))).eval (.leaf 3)) [.bool true, .bool false, .bool true] =
    some (.error (.own 1 0), [.bool, .bool], [.bool true]) := rfl

end Uec.Props.C14
