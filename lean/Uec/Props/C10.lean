/-
  C10 — Crossover recombines parental genes position-wise and reports misuse as errors.

  Property theorems only; helper lemmas are in `Uec.Lemmas.Crossover` / `Uec.Lemmas.RandLin`.
  Impl (code-shaped, `Uec.Model.Crossover`): `twoPointVec`/`uniformVec` (the `Vec<T>` array and tuple
  impls), `twoPointG`/`uniformG` (the `G: Crossover` array and tuple impls, G = `Bitstring`),
  `crossoverGene`/`crossoverSegment` (`impl Crossover for Bitstring`).
  Spec: `Spec.child fromSecond p1 p2` — position-wise choice; `Spec.exchange`.
  "For all random streams" is `∀ r, Reach m r → …` (every sequence of valid answers of the
  requested `rand` primitives); statements `Reach m r ↔ …` additionally say that every described
  outcome occurs for some stream.
-/
import Uec.Lemmas.Crossover
namespace Uec.Props.C10
open Uec Uec.Lin
open Uec.Rand (Reach)
variable {α : Type}

/-! ### what the Spec says, position by position -/

/-- The Spec child of two equally long parents has their length … -/
theorem child_length (f : Nat → Bool) (p1 p2 : List α) : (Spec.child f p1 p2).length = p1.length := by
  simp [Spec.child]

/-- … and its gene at every position `j` is the second parent's gene iff `f j`, else the first's. -/
theorem child_getElem? (f : Nat → Bool) (p1 p2 : List α) (h : p1.length = p2.length) (j : Nat) :
    (Spec.child f p1 p2)[j]? = if f j then p2[j]? else p1[j]? := by
  unfold Spec.child
  rw [pick_getElem?]
  by_cases hj : j < p1.length
  · have : j < p2.length := by omega
    simp [hj, this]
  · have h1 : p1[j]? = none := List.getElem?_eq_none (by omega)
    have h2 : p2[j]? = none := List.getElem?_eq_none (by omega)
    simp [h1, h2]

/-- position-wise: every gene of a Spec child is the gene one of the parents had at that position -/
theorem child_positionwise (f : Nat → Bool) (p1 p2 : List α) (h : p1.length = p2.length) (j : Nat) :
    (Spec.child f p1 p2)[j]? = p1[j]? ∨ (Spec.child f p1 p2)[j]? = p2[j]? := by
  rw [child_getElem? f p1 p2 h]
  cases f j <;> simp

/-! ### different lengths are an error, reported before any random draw -/

theorem twoPointVec_mismatch (p1 p2 : List α) (h : p1.length ≠ p2.length) :
    twoPointVec p1 p2 = .pure (.err (.differentLength p1.length p2.length)) := by
  simp [twoPointVec, h]

theorem twoPointG_mismatch (p1 p2 : List α) (h : p1.length ≠ p2.length) :
    twoPointG p1 p2 = .pure (.err (.differentLength p1.length p2.length)) := by
  simp [twoPointG, h]

theorem uniformVec_mismatch (p1 p2 : List α) (h : p1.length ≠ p2.length) :
    uniformVec p1 p2 = .pure (.err (.differentLength p1.length p2.length)) := by
  simp [uniformVec, h]

theorem uniformG_mismatch (p1 p2 : List α) (h : p1.length ≠ p2.length) :
    uniformG p1 p2 = .pure (.err (.differentLength p1.length p2.length)) := by
  simp [uniformG, h]

/-! ### two-point crossover -/

private theorem orderCuts_le (a b : Nat) : (orderCuts a b).1 ≤ (orderCuts a b).2 := by
  unfold orderCuts; split <;> simp <;> omega

private theorem orderCuts_bound (a b n : Nat) (ha : a ≤ n) (hb : b ≤ n) : (orderCuts a b).2 ≤ n := by
  unfold orderCuts; split <;> simp <;> omega

/-- **Shape, all streams, and every segment** (`Vec` flavours): for equally long parents the
    possible outcomes of `TwoPointXo` are exactly the children
    `p₁[0,lo) ++ p₂[lo,hi) ++ p₁[hi,n)` with `0 ≤ lo ≤ hi ≤ n`: always such a child (never an error,
    never a panic), and every such child — `lo = 0` and `hi = n` included — for some stream. -/
theorem twoPointVec_shape (p1 p2 : List α) (h : p1.length = p2.length) (r : Res (List α)) :
    Reach (twoPointVec p1 p2) r ↔
      ∃ lo hi, lo ≤ hi ∧ hi ≤ p1.length ∧ r = .ok (Spec.twoPointChild lo hi p1 p2) := by
  have hne : (p1.length != p2.length) = false := by simp [h]
  simp only [twoPointVec, hne, Bool.false_eq_true, if_false, bind_eq, reach_bind,
    reach_reqRangeIncl]
  constructor
  · rintro ⟨a, ⟨-, ha⟩, b, ⟨-, hb⟩, hr⟩
    have h1 := orderCuts_le a b
    have h2 := orderCuts_bound a b p1.length ha hb
    generalize orderCuts a b = c at *
    obtain ⟨lo, hi⟩ := c
    simp only at h1 h2 hr
    refine ⟨lo, hi, h1, h2, ?_⟩
    simp only [getRange_eq] at hr
    rw [if_pos ⟨h1, h2⟩, if_pos ⟨h1, by omega⟩] at hr
    simp only [pure_eq, reach_pure] at hr
    rw [hr, putRange_eq_pick p1 p2 lo hi h1 h2 (by omega)]
    rfl
  · rintro ⟨lo, hi, h1, h2, rfl⟩
    refine ⟨lo, ⟨Nat.zero_le _, by omega⟩, hi, ⟨Nat.zero_le _, by omega⟩, ?_⟩
    have : orderCuts lo hi = (lo, hi) := by unfold orderCuts; rw [if_neg (by omega)]
    rw [this]
    simp only [getRange_eq]
    rw [if_pos ⟨h1, h2⟩, if_pos ⟨h1, by omega⟩]
    simp only [pure_eq, reach_pure]
    rw [putRange_eq_pick p1 p2 lo hi h1 h2 (by omega)]
    rfl

/-- the same for the `Crossover` flavours (`Bitstring`): the segment exchange never fails there -/
theorem twoPointG_shape (p1 p2 : List α) (h : p1.length = p2.length) (r : Res (List α)) :
    Reach (twoPointG p1 p2) r ↔
      ∃ lo hi, lo ≤ hi ∧ hi ≤ p1.length ∧ r = .ok (Spec.twoPointChild lo hi p1 p2) := by
  have hne : (p1.length != p2.length) = false := by simp [h]
  simp only [twoPointG, hne, Bool.false_eq_true, if_false, bind_eq, reach_bind,
    reach_reqRangeIncl]
  have key : ∀ lo hi, lo ≤ hi → hi ≤ p2.length →
      crossoverSegment p1 p2 lo hi = ⟨Spec.twoPointChild lo hi p1 p2, Spec.twoPointChild lo hi p2 p1, none⟩ := by
    intro lo hi h1 h2
    rw [crossoverSegment_eq_spec]
    simp [Spec.crossoverSegment, h1, h2, h, Spec.exchange, Spec.twoPointChild, Spec.child]
  constructor
  · rintro ⟨a, ⟨-, ha⟩, b, ⟨-, hb⟩, hr⟩
    have h1 := orderCuts_le a b
    have h2 := orderCuts_bound a b p1.length ha hb
    generalize orderCuts a b = c at *
    obtain ⟨lo, hi⟩ := c
    simp only at h1 h2 hr
    refine ⟨lo, hi, h1, h2, ?_⟩
    rw [key lo hi h1 (by omega)] at hr
    simpa using hr
  · rintro ⟨lo, hi, h1, h2, rfl⟩
    refine ⟨lo, ⟨Nat.zero_le _, by omega⟩, hi, ⟨Nat.zero_le _, by omega⟩, ?_⟩
    have : orderCuts lo hi = (lo, hi) := by unfold orderCuts; rw [if_neg (by omega)]
    rw [this]
    simp only
    rw [key lo hi h1 (by omega)]
    simp

/-- **Every segment can occur**, including those touching either end and the whole genome. -/
theorem twoPoint_every_segment (p1 p2 : List α) (h : p1.length = p2.length) (lo hi : Nat)
    (h1 : lo ≤ hi) (h2 : hi ≤ p1.length) :
    Reach (twoPointVec p1 p2) (.ok (Spec.twoPointChild lo hi p1 p2)) ∧
    Reach (twoPointG p1 p2) (.ok (Spec.twoPointChild lo hi p1 p2)) :=
  ⟨(twoPointVec_shape p1 p2 h _).mpr ⟨lo, hi, h1, h2, rfl⟩,
   (twoPointG_shape p1 p2 h _).mpr ⟨lo, hi, h1, h2, rfl⟩⟩

/-- the whole second parent can be the child (segment `[0, n)`), and so can the whole first parent -/
theorem twoPoint_whole (p1 p2 : List α) (h : p1.length = p2.length) :
    Reach (twoPointVec p1 p2) (.ok p2) ∧ Reach (twoPointVec p1 p2) (.ok p1) := by
  constructor
  · have := (twoPoint_every_segment p1 p2 h 0 p1.length (Nat.zero_le _) (Nat.le_refl _)).1
    have e : Spec.twoPointChild 0 p1.length p1 p2 = p2 := by
      apply List.ext_getElem?; intro j
      unfold Spec.twoPointChild
      rw [child_getElem? _ p1 p2 h]
      by_cases hj : j < p1.length
      · simp [Spec.inSeg, hj]
      · simp [Spec.inSeg, hj, List.getElem?_eq_none (show p2.length ≤ j by omega)]
    rwa [e] at this
  · have := (twoPoint_every_segment p1 p2 h 0 0 (Nat.le_refl _) (Nat.zero_le _)).1
    have e : Spec.twoPointChild 0 0 p1 p2 = p1 := by
      unfold Spec.twoPointChild Spec.child
      apply pick_false; intro j _; simp [Spec.inSeg]
    rwa [e] at this

/-- **Length, position-wise, contiguous** — spelled out for every stream: the child has the parents'
    length, and there is one segment `[lo, hi)` such that the child's gene at `j` is the second
    parent's for `lo ≤ j < hi` and the first parent's elsewhere. -/
theorem twoPoint_positionwise (p1 p2 : List α) (h : p1.length = p2.length) (r : Res (List α))
    (hr : Reach (twoPointVec p1 p2) r ∨ Reach (twoPointG p1 p2) r) :
    ∃ child : List α, r = .ok child ∧ child.length = p1.length ∧
      ∃ lo hi, lo ≤ hi ∧ hi ≤ p1.length ∧
        ∀ j : Nat, child[j]? = if lo ≤ j ∧ j < hi then p2[j]? else p1[j]? := by
  have : ∃ lo hi, lo ≤ hi ∧ hi ≤ p1.length ∧ r = .ok (Spec.twoPointChild lo hi p1 p2) := by
    rcases hr with hr | hr
    · exact (twoPointVec_shape p1 p2 h r).mp hr
    · exact (twoPointG_shape p1 p2 h r).mp hr
  obtain ⟨lo, hi, h1, h2, rfl⟩ := this
  refine ⟨_, rfl, child_length _ _ _, lo, hi, h1, h2, ?_⟩
  intro j
  unfold Spec.twoPointChild
  rw [child_getElem? _ p1 p2 h]
  simp [Spec.inSeg]

/-- **Empty parents simply give an empty child** (no panic, no error). -/
theorem twoPoint_empty (r : Res (List α)) :
    (Reach (twoPointVec ([] : List α) []) r ∨ Reach (twoPointG ([] : List α) []) r) → r = .ok [] := by
  intro hr
  obtain ⟨child, rfl, hl, -⟩ := twoPoint_positionwise [] [] rfl r hr
  simp at hl; simp [hl]

/-! ### uniform crossover -/

/-- **Uniform, `Vec` flavours**: the outcomes for equally long parents are exactly the `2ⁿ`
    position-wise mixtures — one independent coin per position, every mask occurs. -/
theorem uniformVec_spec (p1 p2 : List α) (h : p1.length = p2.length) (r : Res (List α)) :
    Reach (uniformVec p1 p2) r ↔
      ∃ mask : List Bool, mask.length = p1.length ∧ r = .ok (Spec.uniformChild mask p1 p2) := by
  simp only [uniformVec, h, bne_self_eq_false, Bool.false_eq_true, if_false, bind_eq, reach_bind,
    pure_eq, reach_pure]
  constructor
  · rintro ⟨c, hc, rfl⟩
    obtain ⟨coins, hl, rfl⟩ := (reach_uniformVecLoop p1 p2 h c).mp hc
    exact ⟨coins.map not, by simp [hl, h], rfl⟩
  · rintro ⟨mask, hl, rfl⟩
    refine ⟨_, (reach_uniformVecLoop p1 p2 h _).mpr ⟨mask.map not, by simp [hl, h], rfl⟩, ?_⟩
    congr 2
    simp [Function.comp_def]

/-- **Uniform, `Crossover` flavours** (`Bitstring`): the same set of outcomes; the per-gene exchange
    never fails on equally long genomes. -/
theorem uniformG_spec (p1 p2 : List α) (h : p1.length = p2.length) (r : Res (List α)) :
    Reach (uniformG p1 p2) r ↔
      ∃ mask : List Bool, mask.length = p1.length ∧ r = .ok (Spec.uniformChild mask p1 p2) := by
  unfold uniformG
  simp only [h, bne_self_eq_false, Bool.false_eq_true, if_false]
  rw [← h, uniformGLoop_start p1 p2 h]
  simp only [bind_eq, reach_bind, pure_eq, reach_pure]
  constructor
  · rintro ⟨x, ⟨s, hs, rfl⟩, hr⟩
    obtain ⟨mask, hl, rfl⟩ := (reach_swapLoop p1 p2 h s).mp hs
    exact ⟨mask, hl, by simpa [Spec.exchange, Spec.uniformChild, Spec.child] using hr⟩
  · rintro ⟨mask, hl, rfl⟩
    exact ⟨_, ⟨_, (reach_swapLoop p1 p2 h _).mpr ⟨mask, hl, rfl⟩, rfl⟩, by
      simp [Spec.exchange, Spec.uniformChild, Spec.child]⟩

/-- uniform crossover, spelled out for every stream: same length, every gene from one of the
    parents at that position -/
theorem uniform_positionwise (p1 p2 : List α) (h : p1.length = p2.length) (r : Res (List α))
    (hr : Reach (uniformVec p1 p2) r ∨ Reach (uniformG p1 p2) r) :
    ∃ child : List α, r = .ok child ∧ child.length = p1.length ∧
      ∀ j : Nat, child[j]? = p1[j]? ∨ child[j]? = p2[j]? := by
  have : ∃ mask : List Bool, mask.length = p1.length ∧ r = .ok (Spec.uniformChild mask p1 p2) := by
    rcases hr with hr | hr
    · exact (uniformVec_spec p1 p2 h r).mp hr
    · exact (uniformG_spec p1 p2 h r).mp hr
  obtain ⟨mask, -, rfl⟩ := this
  exact ⟨_, rfl, child_length _ _ _, fun j => child_positionwise _ p1 p2 h j⟩

/-- The request sequence of `UniformXo` does not depend on the answers: exactly one `bool` request
    per position (`Vec` flavour), whatever the earlier coins were — the positions are decided
    independently. -/
theorem uniformVec_requests (p1 p2 : List α) (h : p1.length = p2.length) (tape : List Ans)
    (ht : p1.length ≤ tape.length) :
    Rand.requests (uniformVec p1 p2) tape = List.replicate p1.length Prim.bool := by
  simp only [uniformVec, h, bne_self_eq_false, Bool.false_eq_true, if_false, bind_eq]
  rw [h] at ht
  suffices H : ∀ (a b : List α) (t : List Ans) (f : List α → Rand (Res (List α))),
      a.length = b.length → b.length ≤ t.length → (∀ c t', Rand.requests (f c) t' = []) →
      Rand.requests (Rand.bind (uniformVecLoop a b) f) t = List.replicate b.length Prim.bool by
    exact H p1 p2 tape _ h ht (fun c t' => by simp [Rand.requests])
  intro a
  induction a with
  | nil => intro b t f hab; cases b <;> simp_all [uniformVecLoop]
  | cons x a ih =>
    intro b t f hab hbt hf
    cases b with
    | nil => simp at hab
    | cons y b =>
      cases t with
      | nil => simp at hbt
      | cons ans t =>
        simp only [uniformVecLoop, reqBool, bind_eq, bind_ask, bind_pure_left, Rand.requests,
          List.length_cons, List.replicate_succ, List.cons.injEq, true_and, pure_eq]
        rw [Lin.bind_assoc]
        simp only [List.length_cons, Nat.add_right_cancel_iff, Nat.add_le_add_iff_right] at hab hbt
        exact ih b t _ hab hbt (fun c t' => by simp [hf])

/-! ### no panic -/

theorem no_panic (p1 p2 : List α) (r : Res (List α))
    (hr : Reach (twoPointVec p1 p2) r ∨ Reach (twoPointG p1 p2) r ∨
          Reach (uniformVec p1 p2) r ∨ Reach (uniformG p1 p2) r) : r ≠ .panic := by
  by_cases h : p1.length = p2.length
  · rcases hr with hr | hr | hr | hr
    · obtain ⟨_, _, _, _, rfl⟩ := (twoPointVec_shape p1 p2 h r).mp hr; simp
    · obtain ⟨_, _, _, _, rfl⟩ := (twoPointG_shape p1 p2 h r).mp hr; simp
    · obtain ⟨_, _, rfl⟩ := (uniformVec_spec p1 p2 h r).mp hr; simp
    · obtain ⟨_, _, rfl⟩ := (uniformG_spec p1 p2 h r).mp hr; simp
  · rw [twoPointVec_mismatch p1 p2 h, twoPointG_mismatch p1 p2 h, uniformVec_mismatch p1 p2 h,
      uniformG_mismatch p1 p2 h] at hr
    simp only [reach_pure, or_self] at hr
    simp [hr]

/-! ### the exchange primitives (`impl Crossover for Bitstring`) -/

/-- `crossover_gene` is its Spec: an index outside either genome is an error and both genomes are
    unchanged; otherwise exactly the addressed position is exchanged. -/
theorem crossoverGene_spec (a b : List α) (i : Nat) :
    crossoverGene a b i =
      ⟨(Spec.crossoverGene a b i).1, (Spec.crossoverGene a b i).2.1,
       if (Spec.crossoverGene a b i).2.2 then none else some (.geneAccess i a.length)⟩ :=
  crossoverGene_eq_spec a b i

theorem crossoverGene_error_iff (a b : List α) (i : Nat) :
    (crossoverGene a b i).err ≠ none ↔ ¬ (i < a.length ∧ i < b.length) := by
  rw [crossoverGene_spec]; simp only [Spec.crossoverGene]; split <;> simp_all

theorem crossoverGene_error_unchanged (a b : List α) (i : Nat) (h : (crossoverGene a b i).err ≠ none) :
    (crossoverGene a b i).first = a ∧ (crossoverGene a b i).second = b := by
  have := (crossoverGene_error_iff a b i).mp h
  rw [crossoverGene_spec]; simp [Spec.crossoverGene, this]

/-- in range: lengths kept, position `i` exchanged, every other position untouched -/
theorem crossoverGene_swaps (a b : List α) (i : Nat) (ha : i < a.length) (hb : i < b.length) :
    let x := crossoverGene a b i
    x.err = none ∧ x.first.length = a.length ∧ x.second.length = b.length ∧
    x.first[i]? = b[i]? ∧ x.second[i]? = a[i]? ∧
    ∀ j, j ≠ i → x.first[j]? = a[j]? ∧ x.second[j]? = b[j]? := by
  simp only [crossoverGene_spec, Spec.crossoverGene, ha, hb, and_self, if_true, Spec.exchange,
    pick_length, true_and, pick_getElem?, Nat.zero_add, beq_self_eq_true]
  intro j hj
  simp [hj]

/-- `crossover_segment` is its Spec: a segment that is reversed or reaches outside either genome is
    an error and both genomes are unchanged; otherwise exactly `s ≤ j < e` is exchanged. -/
theorem crossoverSegment_spec (a b : List α) (s e : Nat) :
    crossoverSegment a b s e =
      ⟨(Spec.crossoverSegment a b s e).1, (Spec.crossoverSegment a b s e).2.1,
       if (Spec.crossoverSegment a b s e).2.2 then none else some (.geneAccessRange s e a.length)⟩ :=
  crossoverSegment_eq_spec a b s e

theorem crossoverSegment_error_iff (a b : List α) (s e : Nat) :
    (crossoverSegment a b s e).err ≠ none ↔ ¬ (s ≤ e ∧ e ≤ a.length ∧ e ≤ b.length) := by
  rw [crossoverSegment_spec]; simp only [Spec.crossoverSegment]; split <;> simp_all

theorem crossoverSegment_error_unchanged (a b : List α) (s e : Nat)
    (h : (crossoverSegment a b s e).err ≠ none) :
    (crossoverSegment a b s e).first = a ∧ (crossoverSegment a b s e).second = b := by
  have := (crossoverSegment_error_iff a b s e).mp h
  rw [crossoverSegment_spec]; simp [Spec.crossoverSegment, this]

/-- in range: lengths kept, exactly the positions `s ≤ j < e` exchanged, nothing else -/
theorem crossoverSegment_swaps (a b : List α) (s e : Nat) (hse : s ≤ e) (ha : e ≤ a.length)
    (hb : e ≤ b.length) :
    let x := crossoverSegment a b s e
    x.err = none ∧ x.first.length = a.length ∧ x.second.length = b.length ∧
    ∀ j, (s ≤ j ∧ j < e → x.first[j]? = b[j]? ∧ x.second[j]? = a[j]?) ∧
         (¬ (s ≤ j ∧ j < e) → x.first[j]? = a[j]? ∧ x.second[j]? = b[j]?) := by
  simp only [crossoverSegment_spec, Spec.crossoverSegment, hse, ha, hb, and_self, if_true,
    Spec.exchange, pick_length, true_and, pick_getElem?, Nat.zero_add, Spec.inSeg]
  intro j
  constructor
  · rintro ⟨h1, h2⟩
    have : j < a.length := by omega
    have : j < b.length := by omega
    simp [*]
  · intro h
    have : ¬ ((decide (s ≤ j) && decide (j < e)) = true) := by simpa using h
    simp [this]

/-! ### non-vacuity -/

example : Reach (twoPointVec [10, 11, 12] [20, 21, 22]) (.ok [10, 21, 22]) := by
  have := (twoPoint_every_segment [10, 11, 12] [20, 21, 22] rfl 1 3 (by decide) (by decide)).1
  simpa [Spec.twoPointChild, Spec.child, Spec.inSeg] using this

example : Reach (twoPointG [true, true] [false, false]) (.ok [false, true]) := by
  have := (twoPoint_every_segment [true, true] [false, false] rfl 0 1 (by decide) (by decide)).2
  simpa [Spec.twoPointChild, Spec.child, Spec.inSeg] using this

example : Reach (uniformG [1, 2, 3] [4, 5, 6]) (.ok ([4, 2, 6] : List Nat)) := by
  have := (uniformG_spec ([1, 2, 3] : List Nat) [4, 5, 6] rfl _).mpr ⟨[true, false, true], rfl, rfl⟩
  simpa [Spec.uniformChild, Spec.child] using this

example : crossoverSegment [1, 2, 3, 4] [5, 6, 7] 1 3 = ⟨[1, 6, 7, 4], [5, 2, 3], none⟩ := by decide
example : crossoverSegment [1, 2, 3, 4] [5, 6, 7] 1 4 = ⟨[1, 2, 3, 4], [5, 6, 7], some (.geneAccessRange 1 4 4)⟩ := by decide
example : crossoverSegment [1, 2, 3, 4] [5, 6, 7, 8] 3 1 = ⟨[1, 2, 3, 4], [5, 6, 7, 8], some (.geneAccessRange 3 1 4)⟩ := by decide
example : crossoverGene [1, 2] [5, 6, 7] 2 = ⟨[1, 2], [5, 6, 7], some (.geneAccess 2 2)⟩ := by decide
example : crossoverGene [1, 2] [5, 6, 7] 1 = ⟨[1, 6], [5, 2, 7], none⟩ := by decide

end Uec.Props.C10
