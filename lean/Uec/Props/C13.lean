/-
  C13 — Weighted selector combinations choose members in proportion to their weights.

  Property theorems only.  Impl: the `weighted` / `pair` / `dyn` cases of `Sel.select` and
  `Sel.build` (`Uec.Model.Select`): `WeightedPair::new` with `checked_add`, one
  `Bernoulli::from_ratio(a.weight, sum)` request per pair, `Weighted`'s zero check, one
  `choose_weighted` request for `DynWeighted`.
  A nested combination is viewed as a tree `PT` whose inner nodes are the `WeightedPair`s and whose
  leaves ("members") are arbitrary selector terms — any cut of the nesting is a legitimate view, so
  the theorems hold "no matter how the combination was nested or in which order it was built".
-/
import Uec.Lemmas.Select
import Mathlib.Tactic.FieldSimp
import Mathlib.Tactic.Ring
import Mathlib.Tactic.Linarith
import Mathlib.Data.Rat.Defs
import Mathlib.Algebra.Order.Field.Rat
namespace Uec.Props.C13
open Uec Uec.Rand Uec.SelLemmas

/-- a view of a nested weighted combination: `WeightedPair` nodes over member selectors -/
inductive PT where
  | member (s : Sel)
  | pair (a b : PT)

namespace PT

/-- the selector term the view stands for -/
def toSel : PT → Sel
  | member s => s
  | pair a b => .pair a.toSel b.toSel

/-- total weight (`WithWeight::weight` of the root) -/
abbrev weight (t : PT) : Nat := t.toSel.weight

/-- the sub-view at a path (`true` = first component `a`, `false` = second component `b`) -/
def sub : PT → List Bool → PT
  | pair a _, true :: p => a.sub p
  | pair _ b, false :: p => b.sub p
  | t, _ => t

/-- paths of the members, left to right -/
def memberPaths : PT → List (List Bool)
  | member _ => [[]]
  | pair a b => a.memberPaths.map (true :: ·) ++ b.memberPaths.map (false :: ·)

/-- the error wrapping a `WeightedPair` at each level of the path applies -/
def wrap : List Bool → SelErr → SelErr
  | [], e => e
  | true :: p, e => .selector (.a (wrap p e))
  | false :: p, e => .selector (.b (wrap p e))

/-- **The random decisions of a combination**: descend through the pairs, one `Bernoulli`
    request per pair (none at a pair of total weight 0, where the descent stops with `false`).
    Returns the path reached. -/
def route : PT → Rand (List Bool × Bool)
  | member _ => .pure ([], true)
  | pair a b =>
    if a.weight + b.weight = 0 then .pure ([], false) else
    .ask (.ratio a.weight (a.weight + b.weight)) fun
      | .bool true => Rand.bind (route a) fun (p, ok) => .pure (true :: p, ok)
      | .bool false => Rand.bind (route b) fun (p, ok) => .pure (false :: p, ok)
      | _ => .pure ([], false)

/-- what happens after the decisions: the member reached is asked to select (its error wrapped
    with the path), or the zero-weight error of the pair where the descent stopped is reported -/
def finish (hb : Bool) (pop : List Ind) (t : PT) : List Bool × Bool → Rand (Except SelErr Nat)
  | (p, true) => Rand.bind ((t.sub p).toSel.select hb pop) fun r => .pure (mapErr (wrap p) r)
  | (p, false) => .pure (.error (wrap p .zeroWeight))

end PT
open PT

/-! ### Probability of the Bernoulli decisions -/

/-- Probability of an event of a `Rand` computation whose requests are `Bernoulli::from_ratio`
    samples, under the law of that primitive: `ratio num den` answers `true` with probability
    `num/den` (trusted contract of `rand`).  Other requests do not occur in `route`. -/
def prob {α : Type} : Rand α → (α → Bool) → ℚ
  | .pure a, E => if E a then 1 else 0
  | .ask (.ratio num den) k, E =>
      (num : ℚ) / den * prob (k (.bool true)) E + ((den : ℚ) - num) / den * prob (k (.bool false)) E
  | .ask _ _, _ => 0

private theorem bind_assoc_pure {α β γ : Type} (m : Rand α) (f : α → β) (g : β → Rand γ) :
    Rand.bind (Rand.bind m fun x => .pure (f x)) g = Rand.bind m fun x => g (f x) := by
  induction m with
  | pure a => rfl
  | ask p k ih => simp only [Rand.bind]; congr 1; funext a; exact ih a

private theorem bind_bind {α β γ : Type} (m : Rand α) (f : α → Rand β) (g : β → Rand γ) :
    Rand.bind (Rand.bind m f) g = Rand.bind m fun x => Rand.bind (f x) g := by
  induction m with
  | pure a => rfl
  | ask p k ih => simp only [Rand.bind]; congr 1; funext a; exact ih a

private theorem mapErr_mapErr (f g : SelErr → SelErr) (r : Except SelErr Nat) :
    mapErr f (mapErr g r) = mapErr (fun e => f (g e)) r := by cases r <;> rfl

private theorem prob_bind_pure {α β : Type} (m : Rand α) (f : α → β) (E : β → Bool) :
    prob (Rand.bind m fun x => .pure (f x)) E = prob m (fun x => E (f x)) := by
  induction m with
  | pure a => rfl
  | ask p k ih =>
    cases p <;> simp only [Rand.bind, prob]
    rw [ih, ih]

/-- **Factorisation**: selecting with a nested combination *is* making the Bernoulli decisions
    of `route` and then asking exactly one member (the one at the path reached) — or reporting the
    zero-weight error — for every view `t` of the nesting. -/
theorem select_factor (hb : Bool) (pop : List Ind) (t : PT) :
    t.toSel.select hb pop = Rand.bind (route t) (finish hb pop t) := by
  induction t with
  | member s =>
    simp only [toSel, route, Rand.bind, finish, sub]
    have : ∀ m : Rand (Except SelErr Nat), m = Rand.bind m fun r => .pure (mapErr (wrap []) r) := by
      intro m
      induction m with
      | pure r => cases r <;> rfl
      | ask p k ih => simp only [Rand.bind]; congr 1; funext a; exact ih a
    cases s <;> exact this _
  | pair a b iha ihb =>
    by_cases hz : a.toSel.weight + b.toSel.weight = 0
    · simp only [toSel, Sel.select, route, hz, if_true, Rand.bind, finish, wrap]; rfl
    · simp only [toSel, Sel.select, route, hz, if_false, Rand.bind]
      congr 1
      funext ans
      cases ans with
      | bool v =>
        cases v with
        | true =>
          simp only [iha, bind_assoc_pure, bind_bind]
          congr 1; funext x
          obtain ⟨p, ok⟩ := x
          cases ok
          · simp only [finish, Rand.bind, mapErr, wrap]; rfl
          · simp only [finish, sub, bind_assoc_pure, wrap]
            congr 1; funext r; rw [mapErr_mapErr]; cases r <;> rfl
        | false =>
          simp only [ihb, bind_assoc_pure, bind_bind]
          congr 1; funext x
          obtain ⟨p, ok⟩ := x
          cases ok
          · simp only [finish, Rand.bind, mapErr, wrap]; rfl
          · simp only [finish, sub, bind_assoc_pure, wrap]
            congr 1; funext r; rw [mapErr_mapErr]; cases r <;> rfl
      | _ => rfl

/-! ### Tape level: exactly one member, never one of weight zero -/

private theorem reach_route_push {t : PT} {v : Bool} {p : List Bool} {ok : Bool}
    (h : Reach (Rand.bind (route t) fun x => .pure (v :: x.1, x.2)) (p, ok)) :
    ∃ q, p = v :: q ∧ Reach (route t) (q, ok) := by
  rw [reach_bind] at h
  obtain ⟨⟨q, ok'⟩, h1, h2⟩ := h
  have := reach_pure.mp h2
  simp only [Prod.mk.injEq] at this
  obtain ⟨rfl, rfl⟩ := this
  exact ⟨q, rfl, h1⟩

/-- A descent that reaches a member reaches a member of the view, and — unless the root has total
    weight 0 — one of positive weight: **members of weight zero are never used**. -/
theorem zero_never (t : PT) (p : List Bool) (h : Reach (route t) (p, true)) :
    p ∈ t.memberPaths ∧ (0 < t.weight → 0 < (t.sub p).weight) := by
  induction t generalizing p with
  | member s =>
    have := reach_pure.mp h
    simp only [Prod.mk.injEq, and_true] at this
    subst this
    exact ⟨by simp [memberPaths], fun h => h⟩
  | pair a b iha ihb =>
    by_cases hz : a.toSel.weight + b.toSel.weight = 0
    · simp only [route, hz, if_true] at h
      have := reach_pure.mp h
      simp at this
    · simp only [route, hz, if_false, reach_ask] at h
      obtain ⟨ans, hv, hr⟩ := h
      cases ans with
      | bool v =>
        simp only [Prim.valid] at hv
        cases v with
        | true =>
          obtain ⟨q, rfl, hq⟩ := reach_route_push hr
          obtain ⟨h1, h2⟩ := iha q hq
          exact ⟨by simp [memberPaths, h1], fun _ => by simpa [sub] using h2 (hv.1 rfl)⟩
        | false =>
          obtain ⟨q, rfl, hq⟩ := reach_route_push hr
          obtain ⟨h1, h2⟩ := ihb q hq
          have hb0 : 0 < b.toSel.weight := by have := hv.2 rfl; simp only [PT.weight] at this; omega
          exact ⟨by simp [memberPaths, h1], fun _ => by simpa [sub] using h2 hb0⟩
      | _ => simp [Prim.valid] at hv

/-- The descent stops with the zero-weight error only at the root and only if the total weight of
    the whole combination is zero. -/
theorem zero_stop (t : PT) (p : List Bool) (h : Reach (route t) (p, false)) : t.weight = 0 ∧ p = [] := by
  induction t generalizing p with
  | member s => have := reach_pure.mp h; simp at this
  | pair a b iha ihb =>
    by_cases hz : a.toSel.weight + b.toSel.weight = 0
    · simp only [route, hz, if_true] at h
      have := reach_pure.mp h
      simp only [Prod.mk.injEq, and_true] at this
      exact ⟨by simpa [PT.weight, toSel, Sel.weight] using hz, this⟩
    · simp only [route, hz, if_false, reach_ask] at h
      obtain ⟨ans, hv, hr⟩ := h
      cases ans with
      | bool v =>
        simp only [Prim.valid] at hv
        cases v with
        | true =>
          obtain ⟨q, rfl, hq⟩ := reach_route_push hr
          have := (iha q hq).1
          have := hv.1 rfl
          simp only [PT.weight] at *; omega
        | false =>
          obtain ⟨q, rfl, hq⟩ := reach_route_push hr
          have := (ihb q hq).1
          have := hv.2 rfl
          simp only [PT.weight] at *; omega
      | _ => simp [Prim.valid] at hv

/-- **A combination delegates each selection to exactly one of its members**: for every view of
    the nesting, every population and every random stream, the result of the combination is the
    result of one run of one member (its error wrapped with the path to it), that member has
    positive weight whenever the total is positive; or the total weight is zero and the
    zero-weight error is reported. -/
theorem delegates_once (hb : Bool) (pop : List Ind) (t : PT) (r : Except SelErr Nat)
    (h : Reach (t.toSel.select hb pop) r) :
    (∃ p ∈ t.memberPaths, (0 < t.weight → 0 < (t.sub p).weight) ∧
        ∃ r', Reach ((t.sub p).toSel.select hb pop) r' ∧ r = mapErr (wrap p) r') ∨
    (t.weight = 0 ∧ r = .error .zeroWeight) := by
  rw [select_factor, reach_bind] at h
  obtain ⟨⟨p, ok⟩, h1, h2⟩ := h
  cases ok with
  | true =>
    left
    obtain ⟨hp, hw⟩ := zero_never t p h1
    simp only [finish, reach_bind] at h2
    obtain ⟨r', hr', h3⟩ := h2
    exact ⟨p, hp, hw, r', hr', reach_pure.mp h3⟩
  | false =>
    right
    obtain ⟨hw, rfl⟩ := zero_stop t p h1
    exact ⟨hw, reach_pure.mp h2⟩

/-- **All weights zero: the zero-weight error, without any random draw and without asking a member.** -/
theorem all_zero (hb : Bool) (pop : List Ind) (a b : Sel) (h : a.weight + b.weight = 0) :
    (Sel.pair a b).select hb pop = .pure (.error .zeroWeight) := by
  simp only [Sel.select, h, if_true]; rfl

theorem weighted_zero (hb : Bool) (pop : List Ind) (s : Sel) :
    (Sel.weighted s 0).select hb pop = .pure (.error .zeroWeight) := by
  simp only [Sel.select, if_true]; rfl

/-! ### The law: probability proportional to weight -/

private theorem prob_false {α : Type} (m : Rand α) : prob m (fun _ => false) = 0 := by
  induction m with
  | pure a => simp [prob]
  | ask p k ih => cases p <;> simp [prob, ih]

theorem sub_weight_le (t : PT) : ∀ p ∈ t.memberPaths, (t.sub p).weight ≤ t.weight := by
  induction t with
  | member s => intro p hp; simp [memberPaths] at hp; subst hp; simp [sub]
  | pair a b iha ihb =>
    intro p hp
    simp only [memberPaths, List.mem_append, List.mem_map] at hp
    rcases hp with ⟨q, hq, rfl⟩ | ⟨q, hq, rfl⟩
    · have := iha q hq; simp only [sub, PT.weight, toSel, Sel.weight] at *; omega
    · have := ihb q hq; simp only [sub, PT.weight, toSel, Sel.weight] at *; omega

/-- **Each member is chosen with probability `w_i / W`**, for every tree shape (chains built in any
    order, balanced or lopsided trees, any depth) and all weights including zeros: under the law
    of the Bernoulli requests (`ratio a s` is `true` with probability `a/s`), the probability that
    the decisions of a combination of total weight `W > 0` lead to the member at path `p` is that
    member's weight divided by `W`. -/
theorem leaf_law (t : PT) (hpos : 0 < t.weight) : ∀ p ∈ t.memberPaths,
    prob (route t) (fun x => decide (x = (p, true))) = ((t.sub p).weight : ℚ) / (t.weight : ℚ) := by
  induction t with
  | member s =>
    intro p hp
    simp only [memberPaths, List.mem_singleton] at hp
    subst hp
    have : (s.weight : ℚ) ≠ 0 := by
      have : 0 < s.weight := hpos
      exact_mod_cast (by omega : s.weight ≠ 0)
    simp [route, prob, sub, PT.weight, toSel, this]
  | pair a b iha ihb =>
    intro p hp
    have hz : ¬ a.toSel.weight + b.toSel.weight = 0 := by
      simp only [PT.weight, toSel, Sel.weight] at hpos; omega
    have hW : ((a.toSel.weight : ℚ) + b.toSel.weight) ≠ 0 := by
      have : a.toSel.weight + b.toSel.weight ≠ 0 := hz
      exact_mod_cast this
    simp only [memberPaths, List.mem_append, List.mem_map] at hp
    simp only [route, hz, if_false, prob, prob_bind_pure, PT.weight, toSel, Sel.weight, Nat.cast_add]
    rcases hp with ⟨q, hq, rfl⟩ | ⟨q, hq, rfl⟩
    · have e1 : (fun x : List Bool × Bool => decide ((true :: x.1, x.2) = (true :: q, true)))
          = fun x => decide (x = (q, true)) := by
        funext x; obtain ⟨x1, x2⟩ := x; simp
      have e2 : (fun x : List Bool × Bool => decide ((false :: x.1, x.2) = (true :: q, true)))
          = fun _ => false := by
        funext x; simp
      rw [e1, e2, prob_false]
      simp only [sub]
      by_cases ha : 0 < a.weight
      · rw [iha ha q hq]
        have : (a.toSel.weight : ℚ) ≠ 0 := by
          have : a.toSel.weight ≠ 0 := by simp only [PT.weight] at ha; omega
          exact_mod_cast this
        simp only [PT.weight]
        field_simp
        ring
      · have h0 : a.toSel.weight = 0 := by simp only [PT.weight] at ha; omega
        have hq0 : (a.sub q).toSel.weight = 0 := by
          have := sub_weight_le a q hq; simp only [PT.weight] at this; omega
        simp [h0, hq0]
    · have e1 : (fun x : List Bool × Bool => decide ((false :: x.1, x.2) = (false :: q, true)))
          = fun x => decide (x = (q, true)) := by
        funext x; obtain ⟨x1, x2⟩ := x; simp
      have e2 : (fun x : List Bool × Bool => decide ((true :: x.1, x.2) = (false :: q, true)))
          = fun _ => false := by
        funext x; simp
      rw [e1, e2, prob_false]
      simp only [sub]
      by_cases hb' : 0 < b.weight
      · rw [ihb hb' q hq]
        have : (b.toSel.weight : ℚ) ≠ 0 := by
          have : b.toSel.weight ≠ 0 := by simp only [PT.weight] at hb'; omega
          exact_mod_cast this
        simp only [PT.weight]
        field_simp
        ring
      · have h0 : b.toSel.weight = 0 := by simp only [PT.weight] at hb'; omega
        have hq0 : (b.sub q).toSel.weight = 0 := by
          have := sub_weight_le b q hq; simp only [PT.weight] at this; omega
        simp [h0, hq0]

/-- the weights of the members add up to the total, so the probabilities of `leaf_law` add up to 1 -/
theorem total_eq_sum (t : PT) : t.weight = (t.memberPaths.map fun p => (t.sub p).weight).sum := by
  induction t with
  | member s => simp [memberPaths, sub]
  | pair a b iha ihb =>
    simp only [memberPaths, List.map_append, List.map_map, List.sum_append]
    have ea : (List.map ((fun p => ((a.pair b).sub p).weight) ∘ fun x => true :: x) a.memberPaths)
        = a.memberPaths.map fun p => (a.sub p).weight := by
      apply List.map_congr_left; intro p _; simp [sub]
    have eb : (List.map ((fun p => ((a.pair b).sub p).weight) ∘ fun x => false :: x) b.memberPaths)
        = b.memberPaths.map fun p => (b.sub p).weight := by
      apply List.map_congr_left; intro p _; simp [sub]
    rw [ea, eb, ← iha, ← ihb]
    simp [PT.weight, toSel, Sel.weight]

/-! ### Building: a total that does not fit in 32 bits is rejected -/

/-- `WeightedPair::new(a, b)` succeeds exactly when both operands were built and the total fits
    in a `u32`; then the weight of the pair is the exact sum. -/
theorem build_pair_ok_iff (a b : Sel) :
    (Sel.pair a b).build = .ok () ↔ a.build = .ok () ∧ b.build = .ok () ∧ a.weight + b.weight ≤ u32Max := by
  simp only [Sel.build]
  cases ha : a.build with
  | error e => simp
  | ok u =>
    cases hb : b.build with
    | error e => simp
    | ok v =>
      by_cases h : a.weight + b.weight > u32Max
      · simp only [h, if_true]; constructor
        · intro h'; cases h'
        · rintro ⟨_, _, h'⟩; omega
      · simp only [h, if_false]; exact ⟨fun _ => ⟨trivial, trivial, by omega⟩, fun _ => trivial⟩

/-- the overflow error carries the two weights whose sum did not fit -/
theorem build_pair_overflow (a b : Sel) (ha : a.build = .ok ()) (hb : b.build = .ok ())
    (h : u32Max < a.weight + b.weight) : (Sel.pair a b).build = .error (a.weight, b.weight) := by
  simp only [Sel.build, ha, hb]
  simp [h]

/-- a chain `first.with_item_and_weight(s₁,w₁).with_item_and_weight(s₂,w₂)…` (left-nested pairs) -/
def chain : Sel → List (Sel × Nat) → Sel
  | acc, [] => acc
  | acc, (s, w) :: rest => chain (.pair acc (.weighted s w)) rest

/-- **An overflow earlier in the chain is what the whole chain reports**: once a prefix failed with
    `WeightSumOverflow(a, b)`, every longer chain fails with the same error (the `Result` impl of
    `WithWeightedItem`). -/
theorem overflow_sticky (acc : Sel) (e : Nat × Nat) (h : acc.build = .error e) (items : List (Sel × Nat)) :
    (chain acc items).build = .error e := by
  induction items generalizing acc with
  | nil => exact h
  | cons it rest ih =>
    obtain ⟨s, w⟩ := it
    exact ih _ (by simp only [Sel.build, h])

/-- **A total that does not fit in 32 bits is rejected when the chain is built**: if the chain so
    far is fine and adding the next item makes the total exceed `u32::MAX`, the build fails with
    `WeightSumOverflow(total so far, new weight)` — whatever follows. -/
theorem overflow_rejected (acc s : Sel) (w : Nat) (rest : List (Sel × Nat))
    (hacc : acc.build = .ok ()) (hs : s.build = .ok ()) (h : u32Max < acc.weight + w) :
    (chain acc ((s, w) :: rest)).build = .error (acc.weight, w) := by
  simp only [chain]
  apply overflow_sticky
  have := build_pair_overflow acc (.weighted s w) hacc (by simpa [Sel.build] using hs) (by simpa [Sel.weight] using h)
  simpa [Sel.weight] using this

/-- a chain whose running totals all fit builds, and its weight is the sum of all weights -/
theorem chain_builds (acc : Sel) (items : List (Sel × Nat)) (hacc : acc.build = .ok ())
    (hitems : ∀ s w, (s, w) ∈ items → s.build = .ok ())
    (hfit : acc.weight + (items.map (·.2)).sum ≤ u32Max) :
    (chain acc items).build = .ok () ∧ (chain acc items).weight = acc.weight + (items.map (·.2)).sum := by
  induction items generalizing acc with
  | nil => exact ⟨hacc, by simp [chain]⟩
  | cons it rest ih =>
    obtain ⟨s, w⟩ := it
    simp only [List.map_cons, List.sum_cons] at hfit
    have hb : (Sel.pair acc (.weighted s w)).build = .ok () :=
      (build_pair_ok_iff _ _).mpr ⟨hacc, by simpa [Sel.build] using hitems s w (by simp), by simp only [Sel.weight]; omega⟩
    obtain ⟨h1, h2⟩ := ih (.pair acc (.weighted s w)) hb
      (fun s' w' hm => hitems s' w' (List.mem_cons_of_mem _ hm)) (by simp only [Sel.weight]; omega)
    refine ⟨h1, ?_⟩
    simp only [chain, h2, Sel.weight, List.map_cons, List.sum_cons]; omega

/-! ### `DynWeighted` -/

/-- `DynWeighted::select` makes exactly one `choose_weighted` request with the members' weights,
    in order.  Under the law of that primitive (position `i` with probability `wᵢ / Σw`, trusted
    contract of `rand`) each member is therefore used with probability proportional to its weight. -/
theorem dyn_shape (hb : Bool) (pop : List Ind) (l : List (Sel × Nat)) :
    ∃ k, (Sel.dyn l).select hb pop = .ask (.chooseWeighted (l.map (·.2))) k ∧
      ∀ i, k (.nat i) = Sel.selectNth hb pop l i := by
  simp only [Sel.select]
  exact ⟨_, rfl, fun i => rfl⟩

/-- the `i`-th member is the one asked, its error boxed -/
theorem selectNth_eq (hb : Bool) (pop : List Ind) (l : List (Sel × Nat)) (i : Nat) (hi : i < l.length) :
    Sel.selectNth hb pop l i = Rand.bind ((l[i]).1.select hb pop) fun r => .pure (mapErr .dynOther r) := by
  induction l generalizing i with
  | nil => simp at hi
  | cons x xs ih =>
    obtain ⟨s, w⟩ := x
    cases i with
    | zero => simp only [Sel.selectNth, List.getElem_cons_zero]; rfl
    | succ j => simp only [Sel.selectNth, List.getElem_cons_succ]; exact ih j (by simpa using hi)

/-- **`DynWeighted` delegates to exactly one member of positive weight**, or reports that all
    weights are zero / that their total overflows. -/
theorem dyn_delegates (hb : Bool) (pop : List Ind) (l : List (Sel × Nat)) (r : Except SelErr Nat)
    (h : Reach ((Sel.dyn l).select hb pop) r) :
    (∃ i, ∃ hi : i < l.length, 0 < (l[i]).2 ∧
        ∃ r', Reach ((l[i]).1.select hb pop) r' ∧ r = mapErr .dynOther r') ∨
    ((∀ s w, (s, w) ∈ l → w = 0) ∧ r = .error (.dynWeight false)) ∨
    (2 ^ 64 ≤ (l.map (·.2)).sum ∧ r = .error (.dynWeight true)) := by
  simp only [Sel.select, reach_ask] at h
  obtain ⟨ans, hv, hr⟩ := h
  cases ans with
  | nat i =>
    left
    simp only [Prim.valid] at hv
    obtain ⟨hi, hpos⟩ := hv
    have hi' : i < l.length := by simpa using hi
    simp only [] at hr
    rw [selectNth_eq hb pop l i hi', reach_bind] at hr
    obtain ⟨r', h1, h2⟩ := hr
    exact ⟨i, hi', by simpa using hpos, r', h1, reach_pure.mp h2⟩
  | err =>
    right
    have hr := reach_pure'.mp hr
    simp only [Prim.valid] at hv
    by_cases ho : 2 ^ 64 ≤ (l.map (·.2)).sum
    · right; exact ⟨ho, by rw [hr]; simp only [ho, decide_true]⟩
    · left
      rcases hv with hv | hv
      · refine ⟨fun s w hm => ?_, by rw [hr]; simp only [ho, decide_false]⟩
        have := List.all_eq_true.mp hv w (List.mem_map.mpr ⟨(s, w), hm, rfl⟩)
        simpa using this
      · exact absurd hv ho
  | _ => simp [Prim.valid] at hv

/-! ### Non-vacuity -/

/-- the chain `(1,1,0,2)` of the crate's test, as a view with four members -/
private def t4 : PT :=
  .pair (.pair (.pair (.member (.weighted .best 1)) (.member (.weighted .worst 1))) (.member (.weighted .random 0)))
    (.member (.weighted (.tournament 3) 2))

example : t4.weight = 4 ∧ t4.memberPaths.length = 4 := by decide
/-- the member of weight 2 at path `[false]` has probability 2/4, the zero-weight member 0 -/
example : prob (route t4) (fun x => decide (x = ([false], true))) = 1 / 2 := by
  have := leaf_law t4 (by decide) [false] (by decide)
  rw [this]; norm_num [t4, sub, PT.weight, toSel, Sel.weight]
example : prob (route t4) (fun x => decide (x = ([true, false], true))) = 0 := by
  have := leaf_law t4 (by decide) [true, false] (by decide)
  rw [this]; norm_num [t4, sub, PT.weight, toSel, Sel.weight]
/-- the crate's overflow examples: `(MAX, 0)` builds, adding `MAX-1` is rejected with the payload
    `(MAX, MAX-1)`, and so is everything after an earlier overflow -/
example : (chain (.weighted .best u32Max) [(.worst, 0)]).build = .ok () := by decide
example : (chain (.weighted .best u32Max) [(.worst, 0), (.random, u32Max - 1)]).build = .error (u32Max, u32Max - 1) := by decide
example : (chain (.weighted .best u32Max) [(.random, u32Max - 1), (.worst, 0)]).build = .error (u32Max, u32Max - 1) := by decide

end Uec.Props.C13
