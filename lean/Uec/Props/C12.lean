/-
  C12 — Configured probabilities are the probabilities applied.

  Property theorems only; the expectation semantics `ev` (laws of rand's primitives pushed through a
  request tree, exact rational arithmetic) and the per-draw laws are in `Uec.Lemmas.LinDist`.
  Trusted laws: `random::<f32>()` uniform on the grid `k·2⁻²⁴`, `0 ≤ k < 2²⁴`; `random::<bool>()` fair;
  `random_bool(p)` true with probability `p` (`f64ToRat p`); a caller-supplied distribution has an
  arbitrary finite law `U`.  Everything else — which draws are made, in which order, how they are
  compared with the configured rates — is the code-shaped Impl (`Uec.Model.Mutate`, `Uec.Model.Crossover`).
  `P rate = cutoff rate / 2²⁴` is the exact probability of `random::<f32>() < rate`
  (`cutoff rate = ⌈rate·2²⁴⌉` clipped to `[0, 2²⁴]`, so `rate ≤ P < rate + 2⁻²⁴` on `[0,1]`).
-/
import Uec.Lemmas.LinDist
import Uec.Lemmas.RecipCutoff
namespace Uec.Props.C12
open Uec Uec.Lin Finset
variable {α β : Type} (U : UserLaw)

/-- `P rate` is the configured rate up to the grid: for a finite `0 ≤ rate ≤ 1` (value `s·2⁻¹⁴⁹`),
    `rate ≤ P rate < rate + 2⁻²⁴` -/
theorem P_close (rate : Nat) (s : ℤ) (h : F32.decode rate = .fin s) (h0 : 0 ≤ s) (h1 : s ≤ F32.oneScaled) :
    (s : ℚ) / 2 ^ 149 ≤ P rate ∧ P rate < (s : ℚ) / 2 ^ 149 + 1 / 2 ^ 24 := by
  have hs : (s.toNat : ℤ) = s := Int.toNat_of_nonneg h0
  have hS : s.toNat ≤ 2 ^ 149 := by
    have : (s.toNat : ℤ) ≤ 2 ^ 149 := by rw [hs]; exact h1
    exact_mod_cast this
  have hc : cutoff rate = (s.toNat + 2 ^ 125 - 1) / 2 ^ 125 := by
    unfold cutoff F32.cutoff
    rw [h]
    by_cases hz : s ≤ 0
    · have : s = 0 := le_antisymm hz h0
      subst this; simp
    · simp only [hz, if_false]
      apply Nat.min_eq_left
      omega
  have hq : (s : ℚ) = (s.toNat : ℚ) := by exact_mod_cast hs.symm
  generalize s.toNat = S at *
  have l1 : S ≤ cutoff rate * 2 ^ 125 := by rw [hc]; omega
  have l2 : cutoff rate * 2 ^ 125 < S + 2 ^ 125 := by rw [hc]; omega
  have l1q : (S : ℚ) ≤ (cutoff rate : ℚ) * 2 ^ 125 := by exact_mod_cast l1
  have l2q : (cutoff rate : ℚ) * 2 ^ 125 < (S : ℚ) + 2 ^ 125 := by exact_mod_cast l2
  unfold P
  rw [hq]
  have e : (2 : ℚ) ^ 149 = 2 ^ 125 * 2 ^ 24 := by norm_num
  constructor
  · rw [div_le_div_iff₀ (by positivity) (by positivity), e]
    nlinarith
  · rw [div_add_div _ _ (by positivity) (by positivity), div_lt_div_iff₀ (by positivity) (by positivity), e]
    nlinarith

/-! ### bit-flip mutation -/

/-- **One gene, one independent decision**: the first gene is negated with probability `P rate`,
    whatever is then done with the rest (any `F`) — the law of the whole mutation factors gene by gene. -/
theorem withRate_step_law (rate : Nat) (neg : α → α) (x : α) (xs : List α) (F : List α → ℚ) :
    ev U (withRate rate neg (x :: xs)) F =
      P rate * ev U (withRate rate neg xs) (fun ys => F (neg x :: ys)) +
      (1 - P rate) * ev U (withRate rate neg xs) (fun ys => F (x :: ys)) := by
  simp only [withRate, bind_eq, pure_eq, ev_bind, ev_pure]
  have := ev_reqF32_lt U rate (fun b => ev U (withRate rate neg xs) (fun ys => F ((if b then neg x else x) :: ys)))
  simpa [P] using this

/-- **flip law**: gene `j` ends up negated with probability `P rate` and unchanged with `1 − P rate`
    (marginal of any observation `h` of position `j`) -/
theorem flip_law (rate : Nat) (neg : α → α) (g : List α) (j : Nat) (hj : j < g.length) (h : Option α → ℚ) :
    ev U (withRate rate neg g) (fun out => h out[j]?) =
      P rate * h (some (neg g[j])) + (1 - P rate) * h (some g[j]) := by
  induction g generalizing j with
  | nil => simp at hj
  | cons x xs ih =>
    rw [withRate_step_law]
    cases j with
    | zero => simp [ev_const]
    | succ j =>
      have hj' : j < xs.length := by simpa using hj
      simp only [List.getElem?_cons_succ, List.getElem_cons_succ, ih j hj']
      ring

/-- **expected number of flips** `= length · P rate` (genes whose negation differs from them) -/
theorem expected_flips [DecidableEq α] (rate : Nat) (neg : α → α) (g : List α) (hn : ∀ x ∈ g, neg x ≠ x) :
    ev U (withRate rate neg g) (fun out => (diffCount g out : ℚ)) = g.length * P rate := by
  induction g with
  | nil => simp [withRate, diffCount]
  | cons x xs ih =>
    rw [withRate_step_law]
    have hx : neg x ≠ x := hn x (by simp)
    have hx' : x ≠ neg x := fun h => hx h.symm
    simp only [diffCount, hx', if_false, if_true, Nat.cast_add, Nat.cast_one, Nat.cast_zero, ev_add,
      ev_const, ih (fun y hy => hn y (by simp [hy])), List.length_cons]
    ring

/-- `WithOneOverLength`: expected number of flips `= n · P(fl32(1/fl32(n)))` … -/
theorem oneOverLength_expected [DecidableEq α] (neg : α → α) (g : List α) (hn : ∀ x ∈ g, neg x ≠ x) :
    ev U (withOneOverLength neg g) (fun out => (diffCount g out : ℚ)) =
      g.length * P (F32.recipOfNat g.length) :=
  expected_flips U _ neg g hn

/-- … which is exactly one expected flip for every length `2^j` (`j ≤ 24`) … -/
theorem oneOverLength_pow2 : ∀ j, j < 25 → 2 ^ j * cutoff (F32.recipOfNat (2 ^ j)) = 2 ^ 24 := by
  decide +kernel

/-- … and, for **every** length `1 ≤ n < 2²⁴`, one expected flip up to `2n·2⁻²⁴`: the cut-off of
    `fl32(1/fl32(n))` on the 2⁻²⁴ grid satisfies `2²⁴ ≤ n·cutoff < 2²⁴ + 2n`.  (General rounding-error bound:
    `n as f32` is exact, the mantissa of `1/n` is the correctly rounded quotient, the grid cut-off is its
    ceiling - `Uec/Lemmas/FloatRecip.lean`, `RecipCutoff.lean`; no enumeration.) -/
theorem oneOverLength_one_expected (n : Nat) (h0 : n ≠ 0) (hn : n < 2 ^ 24) :
    2 ^ 24 ≤ n * cutoff (F32.recipOfNat n) ∧ n * cutoff (F32.recipOfNat n) < 2 ^ 24 + 2 * n :=
  recip_cutoff n h0 hn

/-- the same as a statement about the expected number of flips of `WithOneOverLength` on a genome of
    length `n` (whose genes all change when negated): `1 ≤ E < 1 + 2n·2⁻²⁴` -/
theorem oneOverLength_expected_close [DecidableEq α] (neg : α → α) (g : List α) (hn : ∀ x ∈ g, neg x ≠ x)
    (h0 : g.length ≠ 0) (hl : g.length < 2 ^ 24) :
    1 ≤ ev U (withOneOverLength neg g) (fun out => (diffCount g out : ℚ)) ∧
    ev U (withOneOverLength neg g) (fun out => (diffCount g out : ℚ)) < 1 + 2 * g.length / 2 ^ 24 := by
  rw [oneOverLength_expected U neg g hn]
  obtain ⟨h1, h2⟩ := recip_cutoff g.length h0 hl
  have e : (g.length : ℚ) * P (F32.recipOfNat g.length) =
      ((g.length * cutoff (F32.recipOfNat g.length) : ℕ) : ℚ) / 2 ^ 24 := by
    simp only [P]; push_cast; ring
  rw [e]
  have hpos : (0 : ℚ) < 2 ^ 24 := by positivity
  constructor
  · rw [le_div_iff₀ hpos]
    have : ((2 ^ 24 : ℕ) : ℚ) ≤ ((g.length * cutoff (F32.recipOfNat g.length) : ℕ) : ℚ) := by exact_mod_cast h1
    push_cast at this ⊢
    linarith
  · rw [div_lt_iff₀ hpos]
    have : ((g.length * cutoff (F32.recipOfNat g.length) : ℕ) : ℚ) < ((2 ^ 24 + 2 * g.length : ℕ) : ℚ) := by
      exact_mod_cast h2
    have e2 : (1 + 2 * (g.length : ℚ) / 2 ^ 24) * 2 ^ 24 = ((2 ^ 24 + 2 * g.length : ℕ) : ℚ) := by
      push_cast; field_simp; ring
    rw [e2]; exact this

/-! ### UMAD -/

/-- **law of the per-gene closure**: draws `add` (prob. `a`), `delete` (prob. `d`), then — only if
    `add` — `delete-new` (prob. `d`), then — only if the new gene survives — the generator. -/
theorem umadGene_law (add del : UInt64) (gen : Rand α) (g : α) (F : List α → ℚ) :
    ev U (umadGene add del gen g) F =
      (1 - f64ToRat add) * (f64ToRat del * F [] + (1 - f64ToRat del) * F [g]) +
      f64ToRat add *
        (f64ToRat del * (f64ToRat del * F [] + (1 - f64ToRat del) * ev U gen (fun x => F [x])) +
         (1 - f64ToRat del) * (f64ToRat del * F [g] + (1 - f64ToRat del) * ev U gen (fun x => F [g, x]))) := by
  simp only [umadGene, bind_eq, pure_eq, ev_bind, ev_reqBoolP, ev_pure, if_true, Bool.true_and,
    Bool.false_and, Bool.false_eq_true, if_false, Bool.not_true, Bool.not_false, List.nil_append,
    List.cons_append, bind_pure_left]
  ring

/-- the parent gene survives with probability `1 − d`; a new gene is present with probability
    `a(1 − d)`; expected size of the per-gene output `(1 − d)(1 + a)` — with tagged genes
    (`inl` = parent, `inr` = new) -/
theorem umadGene_counts (add del : UInt64) (gen : Rand β) (g : α) :
    let gen' : Rand (α ⊕ β) := Rand.bind gen (fun x => .pure (.inr x))
    ev U (umadGene add del gen' (.inl g)) (fun here => ((here.filter Sum.isLeft).length : ℚ)) = 1 - f64ToRat del ∧
    ev U (umadGene add del gen' (.inl g)) (fun here => ((here.filter Sum.isRight).length : ℚ)) =
      f64ToRat add * (1 - f64ToRat del) ∧
    ev U (umadGene add del gen' (.inl g)) (fun here => (here.length : ℚ)) =
      (1 - f64ToRat del) * (1 + f64ToRat add) := by
  refine ⟨?_, ?_, ?_⟩
  · simp only [umadGene_law, ev_bind, ev_pure]
    simp [ev_const, List.filter]
    ring
  · simp only [umadGene_law, ev_bind, ev_pure]
    simp [ev_const, List.filter]
    left; ring
  · simp only [umadGene_law, ev_bind, ev_pure]
    simp [ev_const]
    ring

/-- **expected child size** of the whole pass, any generator: `n (1 − d)(1 + a)` -/
theorem umad_expected_size (add del : UInt64) (gen : Rand α) (genome : List α) :
    ev U (umadPass add del gen genome) (fun out => (out.length : ℚ)) =
      genome.length * ((1 - f64ToRat del) * (1 + f64ToRat add)) := by
  induction genome with
  | nil => simp [umadPass]
  | cons g gs ih =>
    simp only [umadPass, bind_eq, pure_eq, ev_bind, ev_pure, List.length_append, Nat.cast_add, ev_add,
      ev_const, ih, List.length_cons]
    rw [umadGene_law]
    simp [ev_const]
    ring

/-- **size preserved in expectation when deletion = addition/(1+addition)** -/
theorem umad_size_preserved (add del : UInt64) (gen : Rand α) (genome : List α)
    (ha : 1 + f64ToRat add ≠ 0) (hd : f64ToRat del = f64ToRat add / (1 + f64ToRat add)) :
    ev U (umadPass add del gen genome) (fun out => (out.length : ℚ)) = genome.length := by
  rw [umad_expected_size, hd]
  field_simp
  ring

/-- expected numbers of surviving parent genes `n(1 − d)` and of new genes `n·a(1 − d)` (tagged genes) -/
theorem umad_expected_counts (add del : UInt64) (gen : Rand β) (genome : List α) :
    let gen' : Rand (α ⊕ β) := Rand.bind gen (fun x => .pure (.inr x))
    let parent : List (α ⊕ β) := genome.map .inl
    ev U (umadPass add del gen' parent) (fun out => ((out.filter Sum.isLeft).length : ℚ)) =
      genome.length * (1 - f64ToRat del) ∧
    ev U (umadPass add del gen' parent) (fun out => ((out.filter Sum.isRight).length : ℚ)) =
      genome.length * (f64ToRat add * (1 - f64ToRat del)) := by
  induction genome with
  | nil => simp [umadPass]
  | cons g gs ih =>
    obtain ⟨c1, c2, -⟩ := umadGene_counts U add del gen g
    simp only at c1 c2 ih ⊢
    constructor
    · simp only [List.map_cons, umadPass, bind_eq, pure_eq, ev_bind, ev_pure, List.filter_append,
        List.length_append, Nat.cast_add, ev_add, ev_const, ih.1, c1, List.length_cons]
      ring
    · simp only [List.map_cons, umadPass, bind_eq, pure_eq, ev_bind, ev_pure, List.filter_append,
        List.length_append, Nat.cast_add, ev_add, ev_const, ih.2, c2, List.length_cons]
      ring

/-- the empty-parent branch adds its one gene with the configured empty-genome rate -/
theorem umad_empty_law (cfg : UmadCfg) (r : UInt64) (he : cfg.emptyAdd = some r) (hv : F64.validP r = true)
    (gen : Rand α) (F : MRes α → ℚ) :
    ev U (umad cfg gen []) F = f64ToRat r * ev U gen (fun x => F (.ok [x])) + (1 - f64ToRat r) * F (.ok []) := by
  simp [umad, he, hv, ev_bind, ev_reqBoolP]

/-! ### uniform crossover -/

/-- `Vec` flavour: each position takes the first parent's gene with probability 1/2, independently
    of all other positions (one-step factorisation for any `F`) -/
theorem uniformVec_step_law (x y : α) (a b : List α) (F : List α → ℚ) :
    ev U (uniformVecLoop (x :: a) (y :: b)) F =
      1 / 2 * ev U (uniformVecLoop a b) (fun r => F (x :: r)) +
      1 / 2 * ev U (uniformVecLoop a b) (fun r => F (y :: r)) := by
  simp only [uniformVecLoop, bind_eq, pure_eq, ev_bind, ev_pure, ev_reqBool, if_true, Bool.false_eq_true, if_false]
  ring

/-- `Crossover` flavour (`Bitstring`): the index-driven loop with `crossover_gene` has the same law:
    each position is exchanged with probability 1/2, independently -/
theorem uniformG_step_law (x y : α) (a b : List α) (h : a.length = b.length) (F : List α → ℚ) :
    ev U (uniformGLoop (x :: a).length 0 (x :: a) (y :: b)) (fun r => F r.first) =
      1 / 2 * ev U (uniformGLoop a.length 0 a b) (fun r => F (y :: r.first)) +
      1 / 2 * ev U (uniformGLoop a.length 0 a b) (fun r => F (x :: r.first)) := by
  rw [uniformGLoop_start (x :: a) (y :: b) (by simp [h]), uniformGLoop_start a b h]
  simp only [swapLoop, bind_eq, pure_eq, ev_bind, ev_pure, ev_reqBool, if_true, Bool.false_eq_true, if_false]
  ring

/-- marginal: position `j` of a uniform child (`Vec` flavour) is the first parent's gene with
    probability 1/2 and the second parent's with probability 1/2 -/
theorem uniformXo_law (a b : List α) (h : a.length = b.length) (j : Nat) (hj : j < a.length) (f : Option α → ℚ) :
    ev U (uniformVecLoop a b) (fun r => f r[j]?) = 1 / 2 * f a[j]? + 1 / 2 * f b[j]? := by
  induction a generalizing b j with
  | nil => simp at hj
  | cons x a ih =>
    cases b with
    | nil => simp at h
    | cons y b =>
      rw [uniformVec_step_law]
      cases j with
      | zero => simp [ev_const]
      | succ j =>
        have hj' : j < a.length := by simpa using hj
        have h' : a.length = b.length := by simpa using h
        simp only [List.getElem?_cons_succ, ih b h' j hj']
        ring

/-! ### random bitstrings and collections -/

/-- a collection generator draws its elements one after the other from the element generator -/
theorem collect_step_law (gen : Rand α) (n : Nat) (F : List α → ℚ) :
    ev U (collect gen (n + 1)) F = ev U gen (fun x => ev U (collect gen n) (fun xs => F (x :: xs))) := by
  simp only [collect, bind_eq, pure_eq, ev_bind, ev_pure]

/-- every element of a generated collection has the element generator's law -/
theorem collect_marginal (gen : Rand α) (n j : Nat) (hj : j < n) (f : Option α → ℚ) :
    ev U (collect gen n) (fun l => f l[j]?) = ev U gen (fun x => f (some x)) := by
  induction n generalizing j with
  | zero => omega
  | succ n ih =>
    rw [collect_step_law]
    cases j with
    | zero => simp [ev_const]
    | succ j => simp only [List.getElem?_cons_succ, ih j (by omega), ev_const]

/-- `Bitstring::random`: every bit is set with probability 1/2 -/
theorem bitstringRandom_law (n j : Nat) (hj : j < n) :
    ev U (bitstringRandom n) (fun l => if l[j]? = some true then 1 else 0) = 1 / 2 := by
  unfold bitstringRandom
  rw [collect_marginal U reqBool n j hj (fun o => if o = some true then 1 else 0), ev_reqBool]
  simp

/-- `Bitstring::random_with_probability(n, p)`: every bit is set with the requested probability -/
theorem bitstringRandomP_law (n j : Nat) (hj : j < n) (p : UInt64) (hv : F64.validP p = true) :
    ev U (bitstringRandomP n p) (fun r => match r with | .ok l => if l[j]? = some true then 1 else 0 | .panic => 0)
      = f64ToRat p := by
  have hn : (n == 0) = false := by cases n <;> simp_all
  simp only [bitstringRandomP, hn, hv, Bool.false_eq_true, if_false, Bool.not_true, bind_eq, pure_eq, ev_bind, ev_pure]
  rw [collect_marginal U (reqBoolP p) n j hj (fun o => if o = some true then 1 else 0), ev_reqBoolP]
  simp

/-! ### Plushy gene generator -/

/-- **a random gene is a close marker with probability `P closeProbability`** … -/
theorem gene_close_law (closeP tag : Nat) :
    ev U (geneGen closeP tag) (fun g => if g = PGene.close then 1 else 0) = P closeP := by
  simp only [geneGen, bind_eq, pure_eq, ev_bind]
  have := ev_reqF32_lt U closeP (fun b => ev U (if b then Rand.pure PGene.close else
      Rand.bind (reqUser tag) (fun i => .pure (PGene.instr i))) (fun g => if g = PGene.close then 1 else 0))
  simp only [Bool.false_eq_true, if_false, if_true, ev_pure, ev_bind] at this
  rw [this]
  simp [ev_const, P]

/-- … **and otherwise an instruction drawn from the supplied instruction distribution**: the
    instruction with code `c` appears with probability `(1 − P closeProbability) · Pr_U[code = c]` -/
theorem gene_instr_law (closeP tag c : Nat) :
    ev U (geneGen closeP tag) (fun g => if g = PGene.instr c then 1 else 0) =
      (1 - P closeP) * ev U (reqUser tag) (fun i => if i = c then 1 else 0) := by
  simp only [geneGen, bind_eq, pure_eq, ev_bind]
  have := ev_reqF32_lt U closeP (fun b => ev U (if b then Rand.pure PGene.close else
      Rand.bind (reqUser tag) (fun i => .pure (PGene.instr i))) (fun g => if g = PGene.instr c then 1 else 0))
  simp only [Bool.false_eq_true, if_false, if_true, ev_pure, ev_bind] at this
  rw [this]
  simp [P]

/-- the default close probability is `fl32(1.0 / fl32(n + 1))` … -/
theorem uniformClose_eq (n : Nat) : uniformCloseProbability n = F32.recipOfNat (n + 1) := rfl

/-- … whose exact close-marker probability is `1/(n+1)` whenever `n + 1` is a power of two … -/
theorem uniformClose_pow2 : ∀ j, j < 25 → 2 ^ j * cutoff (uniformCloseProbability (2 ^ j - 1)) = 2 ^ 24 := by
  decide +kernel

/-- … and, for **every** number `n` of instructions with `n + 1 < 2²⁴`, the close-marker probability is
    `1/(n+1)` up to `2·2⁻²⁴`: `2²⁴ ≤ (n+1)·cutoff < 2²⁴ + 2(n+1)`, i.e. `1/(n+1) ≤ P < 1/(n+1) + 2·2⁻²⁴`
    (general rounding-error bound, no enumeration) -/
theorem uniformClose_general (n : Nat) (hn : n + 1 < 2 ^ 24) :
    2 ^ 24 ≤ (n + 1) * cutoff (uniformCloseProbability n) ∧
      (n + 1) * cutoff (uniformCloseProbability n) < 2 ^ 24 + 2 * (n + 1) :=
  recip_cutoff (n + 1) (by omega) hn

theorem uniformClose_law (n : Nat) (hn : n + 1 < 2 ^ 24) :
    1 / ((n : ℚ) + 1) ≤ P (uniformCloseProbability n) ∧
    P (uniformCloseProbability n) < 1 / ((n : ℚ) + 1) + 2 / 2 ^ 24 := by
  obtain ⟨h1, h2⟩ := uniformClose_general n hn
  have hpos : (0 : ℚ) < 2 ^ 24 := by positivity
  have hn1 : (0 : ℚ) < (n : ℚ) + 1 := by positivity
  have c1 : ((2 ^ 24 : ℕ) : ℚ) ≤ (((n + 1) * cutoff (uniformCloseProbability n) : ℕ) : ℚ) := by exact_mod_cast h1
  have c2 : (((n + 1) * cutoff (uniformCloseProbability n) : ℕ) : ℚ) < ((2 ^ 24 + 2 * (n + 1) : ℕ) : ℚ) := by
    exact_mod_cast h2
  push_cast at c1 c2
  simp only [P]
  constructor
  · rw [div_le_div_iff₀ hn1 hpos]; linarith
  · rw [show (1 : ℚ) / ((n : ℚ) + 1) + 2 / 2 ^ 24 = (2 ^ 24 + 2 * ((n : ℚ) + 1)) / (((n : ℚ) + 1) * 2 ^ 24) by
      field_simp]
    rw [div_lt_div_iff₀ hpos (by positivity)]
    nlinarith [c2]

/-! ### non-vacuity / sanity -/

example : f64ToRat 0x3FE0000000000000 = 1 / 2 := by
  have h : (0x3FE0000000000000 : UInt64).toNat = 4602678819172646912 := by decide
  simp only [f64ToRat, h]
  norm_num
  have e : (2:ℚ)^1075 = 2^1022 * 2^53 := by rw [← pow_add]
  rw [e, mul_comm (4503599627370496:ℚ), mul_div_mul_left _ _ (by positivity)]
  norm_num
example : f64ToRat 0x3FF0000000000000 = 1 := by
  have h : (0x3FF0000000000000 : UInt64).toNat = 4607182418800017408 := by decide
  simp only [f64ToRat, h]
  norm_num
  have e : (2:ℚ)^1075 = 2^1023 * 2^52 := by rw [← pow_add]
  rw [e, mul_comm (4503599627370496:ℚ), mul_div_mul_left _ _ (by positivity)]
  norm_num
example : f64ToRat 0 = 0 := by
  have h : (0 : UInt64).toNat = 0 := by decide
  simp [f64ToRat, h]
example : cutoff 0x3F000000 = 2 ^ 23 := by decide       -- rate 0.5: P = 1/2 exactly
example : cutoff 0x3E800000 = 2 ^ 22 := by decide       -- rate 0.25
example : cutoff 0 = 0 ∧ cutoff 0x3F800000 = 2 ^ 24 ∧ cutoff 0x7FC00000 = 0 := by decide  -- 0, 1, NaN
example : cutoff (uniformCloseProbability 4) = 3355444 := by decide   -- ⌈2²⁴/5⌉ + rounding of fl32(1/5)

end Uec.Props.C12
