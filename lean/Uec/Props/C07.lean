/-
  C07 — Best, worst and tournament selection apply the intended selection pressure.

  Property theorems only (helper lemmas: `Uec.Lemmas.Select`).  The Impl model is
  `Sel.select` of `Uec.Model.Select` (code-shaped: `Iterator::max/min` folds, the size check,
  one `choose_multiple` request).  "For every random stream" is `∀ r, Rand.Reach m r → …`.
-/
import Uec.Lemmas.Select
import Mathlib.Data.Finset.Powerset
import Mathlib.Data.Nat.Choose.Basic
import Mathlib.Data.Rat.Defs
import Mathlib.Algebra.Order.Field.Rat
namespace Uec.Props.C07
open Uec Uec.Rand Uec.SelLemmas

/-- `x ≤ y` in the individuals' total order (`Ord`): `x.cmp(y) != Greater`.
    `hb = true`: `Score` results (higher is better); `hb = false`: `Error` results (the dual). -/
def le (hb : Bool) (x y : Ind) : Prop := Ind.cmp hb x y ≠ .gt
/-- strictly worse -/
def lt (hb : Bool) (x y : Ind) : Prop := Ind.cmp hb x y = .lt

/-! ### The ordering is a total preorder ("totally ordered individuals, with ties") -/

theorem le_iff_key (hb : Bool) (x y : Ind) :
    le hb x y ↔ (if hb then x.key ≤ y.key else y.key ≤ x.key) := by
  cases hb <;> simp only [le, Ind.cmp, Bool.false_eq_true, if_false, if_true, Ne, Int.compare_eq_gt] <;> omega

theorem le_refl (hb : Bool) (x : Ind) : le hb x x := by rw [le_iff_key]; split <;> omega
theorem le_total (hb : Bool) (x y : Ind) : le hb x y ∨ le hb y x := by
  rw [le_iff_key, le_iff_key]; split <;> omega
theorem le_trans (hb : Bool) (x y z : Ind) : le hb x y → le hb y z → le hb x z := by
  rw [le_iff_key, le_iff_key, le_iff_key]; split <;> omega

private theorem le_iff_rank (hb : Bool) (pop : List Ind) (i j : Nat) (hi : i < pop.length) (hj : j < pop.length) :
    le hb pop[j] pop[i] ↔ rank hb pop j ≤ rank hb pop i := by
  rw [rank_le_iff, cmpAt, le, getD_eq _ _ hi, getD_eq _ _ hj]

private theorem lt_iff_rank (hb : Bool) (pop : List Ind) (i j : Nat) (hi : i < pop.length) (hj : j < pop.length) :
    lt hb pop[j] pop[i] ↔ rank hb pop j < rank hb pop i := by
  rw [rank_lt_iff, cmpAt, lt, getD_eq _ _ hi, getD_eq _ _ hj]

/-! ### Best and worst -/

/-- Best selection consumes no randomness: it is a function of the population alone. -/
theorem best_deterministic (hb : Bool) (pop : List Ind) : ∃ r, Sel.best.select hb pop = .pure r := by
  simp only [Sel.select]; split <;> exact ⟨_, rfl⟩

theorem worst_deterministic (hb : Bool) (pop : List Ind) : ∃ r, Sel.worst.select hb pop = .pure r := by
  simp only [Sel.select]; split <;> exact ⟨_, rfl⟩

/-- **Best returns a maximal individual** (or `EmptyPopulation` exactly when there is none);
    among tied maxima it is the last one (`Iterator::max`). -/
theorem best_is_max (hb : Bool) (pop : List Ind) (r : Except SelErr Nat)
    (h : Reach (Sel.best.select hb pop) r) :
    (pop = [] ∧ r = .error .emptyPopulation) ∨
    ∃ i, ∃ hi : i < pop.length, r = .ok i ∧
      (∀ j (hj : j < pop.length), le hb pop[j] pop[i]) ∧
      (∀ j (hj : j < pop.length), i < j → lt hb pop[j] pop[i]) := by
  cases pop with
  | nil => left; simp [Sel.select, iterMax] at h; exact ⟨rfl, reach_pure'.mp h⟩
  | cons p ps =>
    right
    obtain ⟨m, pre, post, hm, hl, hpre, hpost⟩ :=
      iterMax_spec hb (p :: ps) (List.range (p :: ps).length) (by simp)
    simp only [Sel.select, hm] at h
    have hr := reach_pure'.mp h
    have hmem : m ∈ List.range (p :: ps).length := by rw [hl]; simp
    have hi : m < (p :: ps).length := List.mem_range.mp hmem
    refine ⟨m, hi, hr, ?_, ?_⟩
    · intro j hj
      rw [le_iff_rank _ _ _ _ hi hj]
      have : j ∈ pre ++ m :: post := by rw [← hl]; exact List.mem_range.mpr hj
      rcases List.mem_append.mp this with h1 | h1
      · exact hpre j h1
      rcases List.mem_cons.mp h1 with rfl | h1
      · omega
      · exact Int.le_of_lt (hpost j h1)
    · intro j hj hij
      rw [lt_iff_rank _ _ _ _ hi hj]
      have : j ∈ pre ++ m :: post := by rw [← hl]; exact List.mem_range.mpr hj
      have hs : (pre ++ m :: post).Pairwise (· < ·) := by rw [← hl]; exact List.pairwise_lt_range
      rw [List.pairwise_append] at hs
      rcases List.mem_append.mp this with h1 | h1
      · have := hs.2.2 j h1 m (by simp); omega
      rcases List.mem_cons.mp h1 with rfl | h1
      · omega
      · exact hpost j h1

/-- **Worst returns a minimal individual**; among tied minima it is the first one (`Iterator::min`). -/
theorem worst_is_min (hb : Bool) (pop : List Ind) (r : Except SelErr Nat)
    (h : Reach (Sel.worst.select hb pop) r) :
    (pop = [] ∧ r = .error .emptyPopulation) ∨
    ∃ i, ∃ hi : i < pop.length, r = .ok i ∧
      (∀ j (hj : j < pop.length), le hb pop[i] pop[j]) ∧
      (∀ j (hj : j < pop.length), j < i → lt hb pop[i] pop[j]) := by
  cases pop with
  | nil => left; simp [Sel.select, iterMin] at h; exact ⟨rfl, reach_pure'.mp h⟩
  | cons p ps =>
    right
    obtain ⟨m, pre, post, hm, hl, hpre, hpost⟩ :=
      iterMin_spec hb (p :: ps) (List.range (p :: ps).length) (by simp)
    simp only [Sel.select, hm] at h
    have hr := reach_pure'.mp h
    have hmem : m ∈ List.range (p :: ps).length := by rw [hl]; simp
    have hi : m < (p :: ps).length := List.mem_range.mp hmem
    refine ⟨m, hi, hr, ?_, ?_⟩
    · intro j hj
      rw [le_iff_rank _ _ _ _ hj hi]
      have : j ∈ pre ++ m :: post := by rw [← hl]; exact List.mem_range.mpr hj
      rcases List.mem_append.mp this with h1 | h1
      · exact Int.le_of_lt (hpre j h1)
      rcases List.mem_cons.mp h1 with rfl | h1
      · omega
      · exact hpost j h1
    · intro j hj hji
      rw [lt_iff_rank _ _ _ _ hj hi]
      have : j ∈ pre ++ m :: post := by rw [← hl]; exact List.mem_range.mpr hj
      have hs : (pre ++ m :: post).Pairwise (· < ·) := by rw [← hl]; exact List.pairwise_lt_range
      rw [List.pairwise_append] at hs
      rcases List.mem_append.mp this with h1 | h1
      · exact hpre j h1
      rcases List.mem_cons.mp h1 with rfl | h1
      · omega
      · have := (List.pairwise_cons.mp hs.2.1).1 j h1; omega

/-! ### Tournament -/

/-- What the tournament returns when `choose_multiple` answered the positions `l` (in the order the
    iterator yields them): `.max()` of the sampled individuals. -/
def tournamentOutcome (hb : Bool) (pop : List Ind) (l : List Nat) : Except SelErr Nat :=
  match iterMax (cmpAt hb pop) l with
  | some i => .ok i
  | none => .error .emptyPopulation

/-- The Impl model of `Tournament::select` is: size check, then exactly one `choose_multiple`
    request of `k` out of `n`, then `tournamentOutcome` of the answer. -/
theorem tournament_shape (hb : Bool) (pop : List Ind) (k : Nat) (hk : k ≤ pop.length) :
    (Sel.tournament k).select hb pop =
      .ask (.chooseMultiple pop.length k) fun
        | .idxs l => .pure (tournamentOutcome hb pop l)
        | _ => .pure (.error .emptyPopulation) := by
  have : ¬ pop.length < k := by omega
  simp only [Sel.select, this, if_false]
  congr 1; funext ans
  cases ans <;> try rfl
  simp only [tournamentOutcome]
  split <;> (rename_i heq; rw [heq]; rfl)

/-- A tournament larger than the population is refused before any random draw. -/
theorem tournament_too_large (hb : Bool) (pop : List Ind) (k : Nat) (hk : pop.length < k) :
    (Sel.tournament k).select hb pop = .pure (.error (.tournamentSize k pop.length)) := by
  simp [Sel.select, hk]; rfl

/-- **A tournament of size `k` draws `k` distinct individuals and returns the best of them**:
    for every random stream the result is `ok w` where `w` is one of `k` distinct sampled positions
    `l` and no sampled individual is better than `pop[w]` (ties: the last maximum in draw order). -/
theorem tournament_spec (hb : Bool) (pop : List Ind) (k : Nat) (hk1 : 1 ≤ k) (hk : k ≤ pop.length)
    (r : Except SelErr Nat) (h : Reach ((Sel.tournament k).select hb pop) r) :
    ∃ l : List Nat, l.length = k ∧ l.Nodup ∧ (∀ j ∈ l, j < pop.length) ∧
      ∃ w, ∃ hw : w < pop.length, r = .ok w ∧ w ∈ l ∧
        ∀ j (hj : j < pop.length), j ∈ l → le hb pop[j] pop[w] := by
  rw [tournament_shape hb pop k hk, reach_ask] at h
  obtain ⟨ans, hv, hr⟩ := h
  cases ans with
  | idxs l =>
    simp only [Prim.valid] at hv
    obtain ⟨hlen, hnd, hlt⟩ := hv
    have hlen' : l.length = k := by omega
    have hne : l ≠ [] := by intro h0; rw [h0] at hlen'; simp at hlen'; omega
    obtain ⟨m, pre, post, hm, hl, hpre, hpost⟩ := iterMax_spec hb pop l hne
    have hr := reach_pure'.mp hr
    simp only [tournamentOutcome, hm] at hr
    have hml : m ∈ l := by rw [hl]; simp
    refine ⟨l, hlen', hnd, hlt, m, hlt m hml, hr, hml, ?_⟩
    intro j hj hjl
    rw [le_iff_rank _ _ _ _ (hlt m hml) hj]
    rw [hl] at hjl
    rcases List.mem_append.mp hjl with h1 | h1
    · exact hpre j h1
    rcases List.mem_cons.mp h1 with rfl | h1
    · omega
    · exact Int.le_of_lt (hpost j h1)
  | _ => simp [Prim.valid] at hv

/-- **Every `k`-subset can be drawn**: each duplicate-free list of `k` positions is a valid answer
    of `choose_multiple`, and the tournament then returns the best of exactly that sample. -/
theorem tournament_every_sample (hb : Bool) (pop : List Ind) (k : Nat) (hk : k ≤ pop.length)
    (l : List Nat) (hlen : l.length = k) (hnd : l.Nodup) (hlt : ∀ j ∈ l, j < pop.length) :
    Reach ((Sel.tournament k).select hb pop) (tournamentOutcome hb pop l) := by
  rw [tournament_shape hb pop k hk]
  refine .ask (ans := .idxs l) ?_ (.pure _)
  simp only [Prim.valid]
  exact ⟨by omega, hnd, hlt⟩

/-- **The winner is at least as good as `k-1` other members of the population.** -/
theorem tournament_beats (hb : Bool) (pop : List Ind) (k : Nat) (hk1 : 1 ≤ k) (hk : k ≤ pop.length)
    (r : Except SelErr Nat) (h : Reach ((Sel.tournament k).select hb pop) r) :
    ∃ w, ∃ hw : w < pop.length, r = .ok w ∧
      ∃ others : List Nat, others.length = k - 1 ∧ others.Nodup ∧ w ∉ others ∧
        ∀ j ∈ others, ∃ hj : j < pop.length, le hb pop[j] pop[w] := by
  obtain ⟨l, hlen, hnd, hlt, w, hw, hr, hwl, hbest⟩ := tournament_spec hb pop k hk1 hk r h
  refine ⟨w, hw, hr, l.erase w, ?_, hnd.erase w, ?_, ?_⟩
  · rw [List.length_erase_of_mem hwl, hlen]
  · exact fun hmem => (List.Nodup.mem_erase_iff hnd).mp hmem |>.1 rfl
  · intro j hj
    have hjl : j ∈ l := List.mem_of_mem_erase hj
    exact ⟨hlt j hjl, hbest j (hlt j hjl) hjl⟩

/-- **A tournament of size 1 is uniform random choice**: it returns exactly the sampled position,
    and has the same possible results as `Random` (each position; under the uniform law of
    `choose_multiple(·,1)` resp. `choose` each with probability `1/n`, see `tournament_cdf_law`). -/
theorem tournament_one (hb : Bool) (pop : List Ind) (hn : 1 ≤ pop.length) (r : Except SelErr Nat) :
    (Reach ((Sel.tournament 1).select hb pop) r ↔ ∃ i, i < pop.length ∧ r = .ok i) ∧
    (Reach (Sel.random.select hb pop) r ↔ ∃ i, i < pop.length ∧ r = .ok i) := by
  constructor
  · constructor
    · intro h
      obtain ⟨l, hlen, _, hlt, w, hw, hr, _, _⟩ := tournament_spec hb pop 1 (by omega) hn r h
      exact ⟨w, hw, hr⟩
    · rintro ⟨i, hi, rfl⟩
      have := tournament_every_sample hb pop 1 hn [i] rfl (by simp) (by simpa using hi)
      simpa [tournamentOutcome, iterMax] using this
  · simp only [Sel.select, reach_ask]
    constructor
    · rintro ⟨ans, hv, hr⟩
      cases ans with
      | nat i => exact ⟨i, by simpa [Prim.valid] using hv, reach_pure'.mp hr⟩
      | none => simp only [Prim.valid] at hv; omega
      | _ => simp [Prim.valid] at hv
    · rintro ⟨i, hi, rfl⟩
      exact ⟨.nat i, by simpa [Prim.valid] using hi, .pure _⟩

/-- the winner of a size-1 tournament is the sampled individual itself -/
theorem tournament_one_outcome (hb : Bool) (pop : List Ind) (i : Nat) :
    tournamentOutcome hb pop [i] = .ok i := by simp [tournamentOutcome, iterMax]

/-- **A tournament over the whole population is best selection**: the winner is a maximal
    individual of the population, whatever the draw order. -/
theorem tournament_all (hb : Bool) (pop : List Ind) (hn : 1 ≤ pop.length) (r : Except SelErr Nat)
    (h : Reach ((Sel.tournament pop.length).select hb pop) r) :
    ∃ w, ∃ hw : w < pop.length, r = .ok w ∧ ∀ j (hj : j < pop.length), le hb pop[j] pop[w] := by
  obtain ⟨l, hlen, hnd, hlt, w, hw, hr, _, hbest⟩ :=
    tournament_spec hb pop pop.length hn (Nat.le_refl _) r h
  refine ⟨w, hw, hr, fun j hj => hbest j hj ?_⟩
  -- a duplicate-free list of n positions below n contains every position
  have hsub : l ⊆ List.range pop.length := fun x hx => List.mem_range.mpr (hlt x hx)
  have hperm : l.Perm (List.range pop.length) :=
    (List.subperm_of_subset hnd hsub).perm_of_length_le (by simp [hlen])
  exact hperm.mem_iff.mpr (List.mem_range.mpr hj)

/-- … and its value agrees with `Best`: both results are mutually `≤`. -/
theorem tournament_all_eq_best (hb : Bool) (pop : List Ind) (hn : 1 ≤ pop.length)
    (r rb : Except SelErr Nat)
    (h : Reach ((Sel.tournament pop.length).select hb pop) r) (hbst : Reach (Sel.best.select hb pop) rb) :
    ∃ w b, ∃ hw : w < pop.length, ∃ hb' : b < pop.length, r = .ok w ∧ rb = .ok b ∧
      le hb pop[w] pop[b] ∧ le hb pop[b] pop[w] := by
  obtain ⟨w, hw, hr, hmax⟩ := tournament_all hb pop hn r h
  rcases best_is_max hb pop rb hbst with ⟨h0, _⟩ | ⟨b, hb', hrb, hbmax, _⟩
  · subst h0; simp at hn
  · exact ⟨w, b, hw, hb', hr, hrb, hbmax w hw, hmax b hb'⟩

/-! ### The distribution of the tournament winner

`choose_multiple(rng, k)` draws every `k`-subset of the `n` positions with equal probability
`1 / C(n,k)` (contract of `rand`, trusted; the order inside the answer is not specified).  The
theorems below show (1) that the *value* of the winner is a function of the sampled **set** only,
and (2) count the subsets, which gives the exact law of the modelled function:
`P(value of winner ≤ v) = C(m_v, k) / C(n, k)` with `m_v = #{j | value j ≤ v}` (ties allowed) and,
for pairwise distinct values, `P(w wins) = C(r_w, k-1) / C(n, k)`, `r_w = #{j | value j < value w}`. -/

/-- the value by which individuals are ordered: the key for `Score`, its negation for `Error` -/
abbrev value (hb : Bool) (pop : List Ind) (i : Nat) : Int := rank hb pop i

theorem value_le_iff (hb : Bool) (pop : List Ind) (i j : Nat) (hi : i < pop.length) (hj : j < pop.length) :
    value hb pop j ≤ value hb pop i ↔ le hb pop[j] pop[i] := (le_iff_rank hb pop i j hi hj).symm

/-- (1) The winner is the maximum of the sampled set: its value is `≤ v` iff every sampled
    individual's value is `≤ v` — whatever the order in which the sample was yielded. -/
theorem tournament_winner_of_set (hb : Bool) (pop : List Ind) (l : List Nat) (hne : l ≠ []) :
    ∃ w, tournamentOutcome hb pop l = .ok w ∧ w ∈ l.toFinset ∧
      (∀ j ∈ l.toFinset, value hb pop j ≤ value hb pop w) ∧
      ∀ v : Int, value hb pop w ≤ v ↔ ∀ j ∈ l.toFinset, value hb pop j ≤ v := by
  obtain ⟨m, pre, post, hm, hl, hpre, hpost⟩ := iterMax_spec hb pop l hne
  have hml : m ∈ l := by rw [hl]; simp
  have hmax : ∀ j ∈ l, rank hb pop j ≤ rank hb pop m := by
    intro j hj
    rw [hl] at hj
    rcases List.mem_append.mp hj with h1 | h1
    · exact hpre j h1
    rcases List.mem_cons.mp h1 with rfl | h1
    · omega
    · exact Int.le_of_lt (hpost j h1)
  refine ⟨m, by simp [tournamentOutcome, hm], by simpa using hml, by simpa using hmax, ?_⟩
  intro v
  constructor
  · intro h j hj
    have := hmax j (by simpa using hj)
    simp only [value] at h ⊢; omega
  · intro h; exact h m (by simpa using hml)

open Finset

/-- Counting: the `k`-subsets of `0..n` all of whose members have value `≤ v` are the `k`-subsets of
    the `m = #{j | f j ≤ v}` such positions: `C(m, k)`. -/
theorem card_subsets_le (n k : ℕ) (f : ℕ → ℤ) (v : ℤ) :
    ((powersetCard k (range n)).filter (fun S => ∀ j ∈ S, f j ≤ v)).card
      = (((range n).filter (fun j => f j ≤ v)).card).choose k := by
  rw [← card_powersetCard]
  congr 1
  ext S
  simp only [mem_filter, mem_powersetCard, subset_iff, mem_range]
  constructor
  · rintro ⟨⟨h1, h2⟩, h3⟩; exact ⟨fun x hx => ⟨h1 hx, h3 x hx⟩, h2⟩
  · rintro ⟨h1, h2⟩; exact ⟨⟨fun x hx => (h1 hx).1, h2⟩, fun x hx => (h1 hx).2⟩

/-- Counting: the `k`-subsets that contain `w` and in which `w` is maximal are `w` plus a
    `(k-1)`-subset of the other positions of value `≤ f w`: `C(#{j ≠ w | f j ≤ f w}, k-1)`. -/
theorem card_subsets_max (n k : ℕ) (hk : 1 ≤ k) (f : ℕ → ℤ) (w : ℕ) (hw : w < n) :
    ((powersetCard k (range n)).filter (fun S => w ∈ S ∧ ∀ j ∈ S, f j ≤ f w)).card
      = (((range n).filter (fun j => j ≠ w ∧ f j ≤ f w)).card).choose (k - 1) := by
  rw [← card_powersetCard]
  have hnot : ∀ T ∈ powersetCard (k - 1) ((range n).filter (fun j => j ≠ w ∧ f j ≤ f w)), w ∉ T := by
    intro T hT h
    have := (mem_powersetCard.mp hT).1 h
    simp at this
  refine card_bij' (fun S _ => S.erase w) (fun T _ => insert w T) ?_ ?_ ?_ ?_
  · intro S hS
    simp only [mem_filter, mem_powersetCard] at hS
    obtain ⟨⟨h1, h2⟩, h3, h4⟩ := hS
    rw [mem_powersetCard]
    refine ⟨?_, by rw [card_erase_of_mem h3, h2]⟩
    intro x hx
    have := mem_erase.mp hx
    simp only [mem_filter, mem_range]
    exact ⟨mem_range.mp (h1 this.2), this.1, h4 x this.2⟩
  · intro T hT
    have hwT := hnot T hT
    obtain ⟨h1, h2⟩ := mem_powersetCard.mp hT
    simp only [mem_filter, mem_powersetCard]
    refine ⟨⟨?_, by rw [card_insert_of_notMem hwT, h2]; omega⟩, mem_insert_self _ _, ?_⟩
    · intro x hx
      rcases mem_insert.mp hx with rfl | hx
      · exact mem_range.mpr hw
      · have := h1 hx; simp only [mem_filter] at this; exact this.1
    · intro x hx
      rcases mem_insert.mp hx with rfl | hx
      · exact _root_.le_refl _
      · have := h1 hx; simp only [mem_filter] at this; exact this.2.2
  · intro S hS
    simp only [mem_filter] at hS
    exact insert_erase hS.2.1
  · intro T hT
    exact erase_insert (hnot T hT)

/-- (2a) **Law of the winner's value (ties allowed)**: among the `C(n,k)` equally likely samples,
    exactly `C(m_v,k)` have a winner of value `≤ v`; as a probability,
    `P(value of winner ≤ v) = C(m_v,k) / C(n,k)`.  In particular for `k = 1` this is `m_v / n`
    (uniform choice) and for `k = n` it is `1` iff `v` bounds every value (best selection). -/
theorem tournament_cdf_law (hb : Bool) (pop : List Ind) (k : Nat) (v : Int) :
    (((powersetCard k (range pop.length)).filter
        (fun S => ∀ j ∈ S, value hb pop j ≤ v)).card : ℚ) / ((powersetCard k (range pop.length)).card : ℚ)
      = ((((range pop.length).filter (fun j => value hb pop j ≤ v)).card.choose k : ℕ) : ℚ)
          / ((pop.length.choose k : ℕ) : ℚ) := by
  rw [card_subsets_le, card_powersetCard, card_range]

/-- (2b) **Law of the winner for pairwise distinct values**: `w` wins exactly for the samples that
    contain `w` and otherwise only worse individuals; there are `C(r_w, k-1)` of them, so
    `P(w wins) = C(r_w, k-1) / C(n,k)` where `r_w` individuals are worse than `w`. -/
theorem tournament_pmf_law (hb : Bool) (pop : List Ind) (k : Nat) (hk : 1 ≤ k) (w : Nat) (hw : w < pop.length)
    (hdistinct : ∀ i < pop.length, ∀ j < pop.length, value hb pop i = value hb pop j → i = j) :
    (((powersetCard k (range pop.length)).filter
        (fun S => w ∈ S ∧ ∀ j ∈ S, value hb pop j ≤ value hb pop w)).card : ℚ)
        / ((powersetCard k (range pop.length)).card : ℚ)
      = ((((range pop.length).filter (fun j => value hb pop j < value hb pop w)).card.choose (k - 1) : ℕ) : ℚ)
          / ((pop.length.choose k : ℕ) : ℚ) := by
  rw [card_subsets_max _ _ hk _ _ hw, card_powersetCard, card_range]
  congr 4
  ext j
  simp only [mem_filter, mem_range]
  constructor
  · rintro ⟨hj, hne, hle⟩
    refine ⟨hj, lt_of_le_of_ne hle fun h => hne (hdistinct j hj w hw h)⟩
  · rintro ⟨hj, hlt⟩
    exact ⟨hj, fun h => by subst h; omega, le_of_lt hlt⟩

/-- For pairwise distinct values "`w ∈ S` and `w` is maximal in `S`" is exactly "the tournament on
    any listing of `S` returns `w`". -/
theorem tournament_wins_iff (hb : Bool) (pop : List Ind) (l : List Nat) (hne : l ≠ [])
    (hlt : ∀ j ∈ l, j < pop.length) (w : Nat)
    (hdistinct : ∀ i < pop.length, ∀ j < pop.length, value hb pop i = value hb pop j → i = j) :
    tournamentOutcome hb pop l = .ok w ↔
      (w ∈ l.toFinset ∧ ∀ j ∈ l.toFinset, value hb pop j ≤ value hb pop w) := by
  obtain ⟨m, hm, hml, hmax, _⟩ := tournament_winner_of_set hb pop l hne
  constructor
  · intro h
    rw [hm] at h
    cases h
    exact ⟨hml, hmax⟩
  · rintro ⟨hwl, hwmax⟩
    have h1 := hmax w hwl
    have h2 := hwmax m hml
    have : m = w := hdistinct m (hlt m (by simpa using hml)) w (hlt w (by simpa using hwl)) (by omega)
    rw [hm, this]

/-! ### Non-vacuity -/

/-- a population with ties, both polarities, concrete results of the three selectors -/
example : Reach (Sel.best.select true [⟨1, []⟩, ⟨3, []⟩, ⟨3, []⟩, ⟨0, []⟩]) (.ok 2) := by
  simp [Sel.select, iterMax, cmpAt, Ind.cmp, List.range, List.range.loop]; exact .pure _
example : Reach (Sel.worst.select false [⟨1, []⟩, ⟨3, []⟩, ⟨3, []⟩, ⟨0, []⟩]) (.ok 1) := by
  simp [Sel.select, iterMin, cmpAt, Ind.cmp, List.range, List.range.loop]; exact .pure _
example : Reach ((Sel.tournament 2).select true [⟨1, []⟩, ⟨3, []⟩, ⟨3, []⟩, ⟨0, []⟩]) (.ok 1) :=
  tournament_every_sample true _ 2 (by simp) [3, 1] rfl (by simp) (by simp)
example : (2 : ℕ).choose 1 = 2 ∧ (4 : ℕ).choose 2 = 6 := by decide

end Uec.Props.C07
