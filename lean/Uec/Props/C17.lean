/-
  C17 — Type-erased (dyn) forms behave exactly like the operators they wrap.

  The model of the erased layer is thin (forward + `map_err(Into::into)`, dereference + forward), so
  these theorems are near-definitional; they pin down *what* "nothing observable changes" means —
  same value, converted error, same requests in the same order, same remaining stream — for every
  wrapped implementation, every argument, every stream and every flavour.  The weight of C17 is on
  the tie (all 5 traits × 28 flavours × 3 error conversions on the real code).
-/
import Uec.Model.Erased
import Uec.Lemmas.Operator
namespace Uec.Props.C17
open Uec

variable {ε ε' ε'' α β : Type}

/-- **Erasure changes nothing observable**: on every stream, the erased form (any flavour, any
    conversion) returns the wrapped implementation's value, or its error converted, having issued
    exactly the same requests and leaving exactly the same stream. -/
theorem erased_exec (fl : Flavour) (into : ε → ε') (op : Oper ε α β) (x : α) (t : Tape) :
    Rand.exec (Oper.erased fl into op x) t =
      match Rand.exec (op x) t with
      | none => none
      | some (r, ps, t') => some (mapExcept into id r, ps, t') := by
  unfold Oper.erased Oper.viaPointer Oper.dynForm
  rw [Rand.exec_bind]
  cases Rand.exec (op x) t with
  | none => rfl
  | some r => obtain ⟨r, ps, t'⟩ := r; cases r <;> simp [mapExcept]

/-- same value -/
theorem erased_ok (fl : Flavour) (into : ε → ε') (op : Oper ε α β) (x : α) (t t' : Tape) (v : β)
    (h : Rand.run (op x) t = some (.ok v, t')) :
    Rand.run (Oper.erased fl into op x) t = some (.ok v, t') ∧
    Rand.requests (Oper.erased fl into op x) t = Rand.requests (op x) t := by
  have h1 := Rand.exec_eq_some.mpr ⟨h, rfl⟩
  have h2 := erased_exec fl into op x t
  rw [h1] at h2
  exact Rand.exec_eq_some.mp h2

/-- same error, converted into the erased error type -/
theorem erased_err (fl : Flavour) (into : ε → ε') (op : Oper ε α β) (x : α) (t t' : Tape) (e : ε)
    (h : Rand.run (op x) t = some (.error e, t')) :
    Rand.run (Oper.erased fl into op x) t = some (.error (into e), t') ∧
    Rand.requests (Oper.erased fl into op x) t = Rand.requests (op x) t := by
  have h1 := Rand.exec_eq_some.mpr ⟨h, rfl⟩
  have h2 := erased_exec fl into op x t
  rw [h1] at h2
  exact Rand.exec_eq_some.mp h2

/-- the flavour is irrelevant -/
theorem flavour_irrelevant (fl fl' : Flavour) (into : ε → ε') (op : Oper ε α β) :
    Oper.erased fl into op = Oper.erased fl' into op := rfl

/-- with the identity conversion (`E` = the operator's own error type) erasure is invisible -/
theorem erased_same (fl : Flavour) (op : Oper ε α β) (x : α) (t : Tape) :
    Rand.exec (Oper.erased fl id op x) t = Rand.exec (op x) t := by
  rw [erased_exec]
  cases Rand.exec (op x) t with
  | none => rfl
  | some r => obtain ⟨r, ps, t'⟩ := r; cases r <;> simp [mapExcept]

/-- closed under nesting: an erased form is itself an implementation and can be erased again;
    the conversions compose -/
theorem erased_nested (fl fl' : Flavour) (into : ε → ε') (into' : ε' → ε'') (op : Oper ε α β) (x : α) (t : Tape) :
    Rand.exec (Oper.erased fl' into' (Oper.erased fl into op) x) t =
      Rand.exec (Oper.erased fl (into' ∘ into) op x) t := by
  rw [erased_exec, erased_exec, erased_exec]
  cases Rand.exec (op x) t with
  | none => rfl
  | some r => obtain ⟨r, ps, t'⟩ := r; cases r <;> simp [mapExcept]

/-- pipelines (C14 shapes of any nesting) behind an erased pointer -/
theorem pipeline_erased (fl : Flavour) (c : Conv) (op : Op) (x : Val) (t : Tape) :
    Rand.exec (op.evalErased fl c x) t =
      match Rand.exec (op.eval x) t with
      | none => none
      | some (r, ps, t') => some (mapExcept c.into id r, ps, t') := by
  unfold Op.evalErased
  rw [erased_exec]
  cases Rand.exec (op.eval x) t with
  | none => rfl
  | some r => obtain ⟨r, ps, t'⟩ := r; rfl

/-- the macro generates 7 pointer kinds × 4 auto-trait sets = 28 flavours, all distinct -/
theorem flavour_inventory : Flavour.all.length = 28 ∧ Flavour.all.Nodup := by decide

/-! non-vacuity: an implementation that draws and can fail, erased -/
def coin : Oper Nat Nat Nat := fun x =>
  .ask .bool fun | .bool true => .pure (.ok (x + 1)) | _ => .pure (.error 7)

example : Rand.exec (Oper.erased (.box, .sendSync) (fun e => e + 100) coin 3) [.bool false, .nat 1] =
    some (.error 107, [.bool], [.nat 1]) := rfl
example : Rand.exec (Oper.erased (.cellRefMut, .none) (fun e => e + 100) coin 3) [.bool true, .nat 1] =
    some (.ok 4, [.bool], [.nat 1]) := rfl

end Uec.Props.C17
