import Uec.Model.Stack
import Uec.Model.StackSpec
