import Uec.Props.C01
import Uec.Props.C02
import Uec.Props.C03
import Uec.Props.C04
import Uec.Props.C05
import Uec.Model.Select
