/- Driver family `ops`: operator pipelines over probe operators (C14; the erased forms of C17). -/
import Uec.Model.OperatorSpec
import Uec.Model.OpProbe
import Uec.Model.Erased
import Driver.RandIO
namespace Driver.OpsFam
open Uec Driver

/-- S-expressions: the shape language shared with the harness (`harness/src/fam_ops.rs`) -/
inductive SX where
  | atom (s : String)
  | list (l : List SX)
deriving Inhabited

def tokenize (s : String) : List String :=
  splitWs ((s.replace "(" " ( ").replace ")" " ) ")

mutual
partial def parseSX : List String → Option (SX × List String)
  | [] => none
  | "(" :: rest => do
    let (items, rest') ← parseItems rest
    pure (.list items, rest')
  | ")" :: _ => none
  | a :: rest => some (.atom a, rest)
partial def parseItems : List String → Option (List SX × List String)
  | [] => none
  | ")" :: rest => some ([], rest)
  | toks => do
    let (x, rest) ← parseSX toks
    let (xs, rest') ← parseItems rest
    pure (x :: xs, rest')
end

partial def toVal : SX → Option Val
  | .atom a => a.toNat?.map .leaf
  | .list (.atom "P" :: [a, b]) => do pure (.pair (← toVal a) (← toVal b))
  | .list (.atom "A" :: l) => do pure (.arr (← l.mapM toVal))
  | .list (.atom "V" :: l) => do pure (.vec (← l.mapM toVal))
  | .list (.atom "I" :: [g, s]) => do pure (.ind (← toVal g) (← toVal s))
  | _ => none

partial def showVal : Val → String
  | .leaf n => toString n
  | .pair a b => s!"(P {showVal a} {showVal b})"
  | .arr l => "(A" ++ String.join (l.map fun v => " " ++ showVal v) ++ ")"
  | .vec l => "(V" ++ String.join (l.map fun v => " " ++ showVal v) ++ ")"
  | .ind g s => s!"(I {showVal g} {showVal s})"

def showErr : OpErr → String
  | .own id c => s!"own({id},{c})"
  | .thenFirst e => s!"thenFirst({showErr e})"
  | .thenSecond e => s!"thenSecond({showErr e})"
  | .andFirst e => s!"andFirst({showErr e})"
  | .andSecond e => s!"andSecond({showErr e})"
  | .map e i => s!"map({showErr e},{i})"
  | .illTyped => "illTyped"

def showRes : Except OpErr Val → String
  | .ok v => "ok " ++ showVal v
  | .error e => "err " ++ showErr e

def nat2 (a b : String) : Option (Nat × Nat) := do pure (← a.toNat?, ← b.toNat?)

/-- a selector / mutator / recombinator probe: `(ps id d)`, `(pm id d)`, `(pr id d)` -/
def toComponent : SX → Option Op
  | .list [.atom "ps", .atom a, .atom b] => (nat2 a b).map fun (id, d) => .leaf id (Probe.psel id d)
  | .list [.atom "pm", .atom a, .atom b] => (nat2 a b).map fun (id, d) => .leaf id (Probe.probe id d)
  | .list [.atom "pr", .atom a, .atom b] => (nat2 a b).map fun (id, d) => .leaf id (Probe.probe id d)
  | _ => none

partial def toOp : SX → Option Op
  | .list [.atom "p", .atom a, .atom b] => (nat2 a b).map fun (id, d) => .leaf id (Probe.probe id d)
  | .list [.atom "vp", .atom a, .atom b] => (nat2 a b).map fun (id, d) => .leaf id (Probe.vprobe id d)
  | .list [.atom "then", a, b] => do pure (.then_ (← toOp a) (← toOp b))
  | .list [.atom "and", a, b] => do pure (.and_ (← toOp a) (← toOp b))
  | .list [.atom "map", f] => do pure (.map (← toOp f))
  | .list [.atom "mapm", s, f] => do pure (Op.mapMethod (← toOp s) (← toOp f))
  | .list [.atom "thenmap", a, f] => do pure (Op.thenMap (← toOp a) (← toOp f))
  | .list [.atom "rep", .atom n, f] => do pure (Op.applyNTimes (← n.toNat?) (← toOp f))
  | .list [.atom "twice", f] => do pure (Op.applyTwice (← toOp f))
  | .list [.atom "id"] => some .identity
  | .list [.atom "constleaf", .atom n] => n.toNat?.map fun n => .constant (.leaf n)
  | .list [.atom "constvec", .atom n] => n.toNat?.map fun n => .constant (.vec ((List.range n).map .leaf))
  | .list [.atom "select", s] => (toComponent s).map (.wrap .select)
  | .list [.atom "select_ref", s] => (toComponent s).map fun c => .wrap .select (.wrap .byRef c)
  | .list [.atom "mutate", s] => (toComponent s).map (.wrap .mutate)
  | .list [.atom "mutate_ref", s] => (toComponent s).map fun c => .wrap .mutate (.wrap .byRef c)
  | .list [.atom "mutate_mut", s] => (toComponent s).map fun c => .wrap .mutate (.wrap .byMutRef c)
  | .list [.atom "recombine", s] => (toComponent s).map (.wrap .recombine)
  | .list [.atom "recombine_ref", s] => (toComponent s).map fun c => .wrap .recombine (.wrap .byRef c)
  | .list [.atom "erased", a] => do pure (.wrap .erased (← toOp a))
  | .list [.atom "erased_arc", a] => do pure (.wrap .erased (← toOp a))
  | .list [.atom "extract"] => some .genomeExtractor
  | .list [.atom "scorer", gm, .atom c] => do pure (.genomeScorer (← toOp gm) (Probe.score (← c.toNat?)))
  | .list [.atom "wrapscorer", gm, .atom c] => do pure (Op.wrapScorer (← toOp gm) (Probe.score (← c.toNat?)))
  | _ => none

/-- what may stand behind an erased pointer: a pipeline, or a bare selector / mutator /
    recombinator / child-maker probe -/
def toWrapped (x : SX) : Option Op :=
  match x with
  | .list [.atom "pc", .atom a, .atom b, .atom c, .atom d] => do
    let id ← a.toNat?; let dd ← b.toNat?; let sid ← c.toNat?; let sd ← d.toNat?
    pure (.leaf id (Probe.pchild id dd sid sd))
  | _ => (toComponent x).orElse fun _ => toOp x

def toPointer : String → Option Pointer
  | "ref" => some .ref | "mutref" => some .mutRef | "cellrefmut" => some .cellRefMut | "box" => some .box
  | "arc" => some .arc | "rc" => some .rc | "cellref" => some .cellRef | _ => none
def toAuto : String → Option AutoTraits
  | "none" => some .none | "send" => some .send | "sync" => some .sync | "sendsync" => some .sendSync | _ => none
def toConv : String → Option Conv
  | "same" => some .same | "boxed" => some .boxed | "custom" => some .custom | _ => none

def showPointer : Pointer → String
  | .ref => "ref" | .mutRef => "mutref" | .cellRefMut => "cellrefmut" | .box => "box"
  | .arc => "arc" | .rc => "rc" | .cellRef => "cellref"
def showAuto : AutoTraits → String
  | .none => "none" | .send => "send" | .sync => "sync" | .sendSync => "sendsync"

def showEErr : EErr → String
  | .same e => s!"same({showErr e})"
  | .boxed e => s!"boxed({showErr e})"
  | .custom e => s!"custom({showErr e})"

def showERes : Except EErr Val → String
  | .ok v => "ok " ++ showVal v
  | .error e => "err " ++ showEErr e

/-- Like `runIO`, but also hands back the tape of answers that was read. -/
partial def runIOTape {α : Type} (stdin stdout : IO.FS.Stream) : Rand α → List Ans → IO (α × List Ans)
  | .pure a, acc => pure (a, acc.reverse)
  | .ask p k, acc => do
    stdout.putStrLn ("NEED " ++ showPrim p)
    stdout.flush
    let line ← stdin.getLine
    match parseAns line.trimAscii.toString with
    | some a => runIOTape stdin stdout (k a) (a :: acc)
    | none => throw (IO.userError s!"bad answer line: {line}")

def showCall (c : Spec.Call) : String :=
  s!"{c.name}:{(Probe.hash c.input).toNat % 2 ^ 48}:{c.reqs.length}:{if c.failed then 1 else 0}"

def parse1 (toks : List String) : Option SX :=
  match parseSX toks with
  | some (x, []) => some x
  | _ => none

/-- request: `ops <input value> | <shape>`;
    reply: `<impl result> ## <spec result> ; rest=<unread answers> ; calls=<name:hash:nreqs:failed>,…` -/
def handle (stdin stdout : IO.FS.Stream) (args : List String) : IO String := do
  let toks := tokenize (" ".intercalate args)
  let inToks := toks.takeWhile (· ≠ "|")
  let opToks := (toks.dropWhile (· ≠ "|")).drop 1
  if args == ["flavours"] then
    return ",".intercalate (Flavour.all.map fun (p, a) => showPointer p ++ "/" ++ showAuto a)
  -- `(dyn <pointer> <auto traits> <conversion> <wrapped>)`: the erased forms of C17
  match (parse1 inToks).bind toVal, parse1 opToks with
  | some x, some (.list [.atom "dyn", .atom p, .atom a, .atom c, w]) =>
    match toPointer p, toAuto a, toConv c, toWrapped w with
    | some p, some a, some c, some op =>
      let (r, tape) ← runIOTape stdin stdout (op.evalErased (p, a) c x) []
      -- Spec: what the wrapped implementation itself does on the same stream, error converted
      let spec := match Spec.exec op x tape with
        | some o => s!"{showERes (match o.result with | .ok v => .ok v | .error e => .error (c.into e))} ; rest={o.rest.length} ; calls={",".intercalate (o.calls.map showCall)}"
        | none => "tape-too-short"
      return s!"{showERes r} ## {spec}"
    | _, _, _, _ => return "bad-request"
  | _, _ => pure ()
  match (parse1 inToks).bind toVal, (parse1 opToks).bind toOp with
  | some x, some op =>
    let (r, tape) ← runIOTape stdin stdout (op.eval x) []
    let spec := match Spec.exec op x tape with
      | some o => s!"{showRes o.result} ; rest={o.rest.length} ; calls={",".intercalate (o.calls.map showCall)}"
      | none => "tape-too-short"
    pure s!"{showRes r} ## {spec}"
  | _, _ => pure "bad-request"

end Driver.OpsFam
