/- Interactive interpretation of `Rand`: print `NEED <prim>`, read the answer line. -/
import Uec.Model.Rand
import Driver.Util
namespace Driver
open Uec

def showNatList (l : List Nat) : String := ",".intercalate (l.map toString)

def showPrim : Prim → String
  | .f32 => "f32"
  | .bool => "bool"
  | .boolP b => s!"boolP {b.toNat}"
  | .ratio a b => s!"ratio {a} {b}"
  | .range lo hi => s!"range {lo} {hi}"
  | .rangeIncl lo hi => s!"rangeIncl {lo} {hi}"
  | .uniform n => s!"uniform {n}"
  | .choose n => s!"choose {n}"
  | .chooseDistr n => s!"chooseDistr {n}"
  | .chooseMultiple n k => s!"chooseMultiple {n} {k}"
  | .chooseWeighted ws => s!"chooseWeighted {showNatList ws}"
  | .shuffle n => s!"shuffle {n}"
  | .user t => s!"user {t}"

def parseNatList? (s : String) : Option (List Nat) :=
  if s.isEmpty then some [] else (s.splitOn ",").mapM (·.toNat?)

def parseAns (line : String) : Option Ans :=
  match splitWs line with
  | ["n", v] => v.toNat?.map .nat
  | ["b", "t"] => some (.bool true)
  | ["b", "f"] => some (.bool false)
  | ["w", v] => v.toNat?.map (fun n => .bits n.toUInt64)
  | ["l", v] => (parseNatList? v).map .idxs
  | ["l"] => some (.idxs [])
  | ["none"] => some .none
  | ["err"] => some .err
  | _ => none

/-- Run a `Rand` computation against the harness: every request is printed and answered. -/
partial def runIO {α : Type} (stdin stdout : IO.FS.Stream) : Rand α → IO α
  | .pure a => pure a
  | .ask p k => do
    stdout.putStrLn ("NEED " ++ showPrim p)
    stdout.flush
    let line ← stdin.getLine
    match parseAns line.trimAscii.toString with
    | some a => runIO stdin stdout (k a)
    | none => throw (IO.userError s!"bad answer line: {line}")

end Driver
