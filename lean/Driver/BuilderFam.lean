/- Driver family `builder`: the generated PushState builder (C19). -/
import Uec.Model.Builder
import Driver.PushFam
namespace Driver.BuilderFam
open Uec Uec.Builder Driver Driver.PushFam

def splitOnTok (sep : String) (toks : List String) : List (List String) :=
  toks.foldr (fun t acc => if t == sep then [] :: acc else
    match acc with | [] => [[t]] | h :: r => (t :: h) :: r) [[]]

def parseCall : List String → Option Call
  | ["maxAll", n] => n.toNat?.map .maxAll
  | ["boolMax", n] => n.toNat?.map .boolMax
  | ["floatMax", n] => n.toNat?.map .floatMax
  | ["intMax", n] => n.toNat?.map .intMax
  | "boolValues" :: vs => (vs.mapM parseBool?).map .boolValues
  | "floatValues" :: vs => (vs.mapM String.toNat?).map fun l => .floatValues (l.map Nat.toUInt64)
  | "intValues" :: vs => (vs.mapM parseInt?).map fun l => .intValues (l.map Int64.ofInt)
  | "program" :: toks => (parseProgs (toks.length + 1) toks).map .program
  | ["noProgram"] => some .noProgram
  | ["stepLimit", n] => n.toNat?.map .stepLimit
  | ["input", tok] => (parseLit tok).map fun (n, v) => .input n v
  | _ => none

def parseTS : String → Option TS
  | "u" => some .unset | "s" => some .sized | "l" => some .loaded | _ => none
def showTS : TS → String
  | .unset => "u" | .sized => "s" | .loaded => "l"

def showLit : Lit → String
  | .int v => s!"I:{v.toInt}" | .float b => s!"F:{b.toNat}" | .bool b => s!"B:{if b then "t" else "f"}"

def showBuilt : Built → String
  | .rejected k => s!"rejected {k}"
  | .notBuildable => "notBuildable"
  | .error k e => s!"error {k} {showErr (.stack e)}"
  | .ok s =>
    s!"ok | {s.exec.max} {s.int.max} {s.float.max} {s.bool.max} | {s.maxSteps} | " ++ showState s

/-- `builder run <call> ; <call> ; …`   /   `builder ts <e> <s> <b> <f> <i> ; <call>` /
    `builder lookup <name> ; <call> ; …` (value the name resolves to in the built state) -/
def handle (args : List String) : String :=
  match args with
  | "run" :: rest =>
    match ((splitOnTok ";" rest).filter (· ≠ [])).mapM parseCall with
    | some cs => showBuilt (build cs)
    | none => "bad-request"
  | "lookup" :: name :: rest =>
    match ((splitOnTok ";" rest).filter (· ≠ [])).mapM parseCall with
    | some cs =>
      match build cs with
      | .ok s => match Impl.lookup s.inputs name with | some v => showLit v | none => "unbound"
      | b => showBuilt b
    | none => "bad-request"
  | "ts" :: e :: s :: b :: f :: i :: ";" :: call =>
    match parseTS e, parseTS s, parseTS b, parseTS f, parseTS i, parseCall call with
    | some e, some s, some b, some f, some i, some c =>
      match tstep { exec := e, steps := s, bool := b, float := f, int := i } c with
      | none => "none"
      | some t => s!"{showTS t.exec} {showTS t.steps} {showTS t.bool} {showTS t.float} {showTS t.int}"
    | _, _, _, _, _, _ => "bad-request"
  | "gts" :: e :: st :: stacks :: ";" :: call =>
    -- generic automaton: `builder gts <exec> <steps> <s1,s2,…> ; maxAll | maxOf i | valuesOf i | program | noProgram | stepLimit | build`
    match parseTS e, parseTS st, (stacks.splitOn ",").mapM parseTS with
    | some e, some st, some ss =>
      let t : GState := { exec := e, steps := st, stacks := ss }
      let showG (g : GState) : String := s!"{showTS g.exec} {showTS g.steps} {",".intercalate (g.stacks.map showTS)}"
      let c? : Option GCall := match call with
        | ["maxAll"] => some .maxAll
        | ["maxOf", i] => i.toNat?.map .maxOf
        | ["valuesOf", i] => i.toNat?.map .valuesOf
        | ["program"] => some .program
        | ["noProgram"] => some .noProgram
        | ["stepLimit"] => some .stepLimit
        | _ => none
      match call, c? with
      | ["build"], _ => if gbuildable t then "BUILT" else "none"
      | _, some c => match gstep t c with | none => "none" | some g => showG g
      | _, none => "bad-request"
    | _, _, _ => "bad-request"
  | ["buildable", e, s, b, f, i] =>
    match parseTS e, parseTS s, parseTS b, parseTS f, parseTS i with
    | some e, some s, some b, some f, some i =>
      if buildable { exec := e, steps := s, bool := b, float := f, int := i } then "yes" else "no"
    | _, _, _, _, _ => "bad-request"
  | _ => "bad-request"

end Driver.BuilderFam
