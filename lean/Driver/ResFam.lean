/- Driver family `res`: orders of scores / errors / result collections / individuals, totals, and
   scoring generators (C15). -/
import Uec.Model.Results
import Driver.RandIO
namespace Driver.ResFam
open Uec Uec.ResSpec Driver

def ordCode : Option Ordering → String → String
  | some .lt, _ => "l" | some .eq, _ => "e" | some .gt, _ => "g" | none, d => d

def b (x : Bool) : String := if x then "t" else "f"

/-- seven characters: cmp pcmp == < <= > >= ; `maskEq` prints `_` for `==` (left open by the property) -/
def code (v : Verdicts) (maskEq : Bool := false) : String :=
  ordCode v.cmp "-" ++ ordCode v.pcmp "n" ++ (if maskEq then "_" else b v.eq) ++ b v.lt ++ b v.le ++ b v.gt ++ b v.ge

abbrev SI := Score.elem Elem.int
abbrev EI := Error.elem Elem.int

/-- the subjects compared for one pair of values (see `fam_res.rs::codes`) -/
def implCodes (a c : Int) : String :=
  let rsA : TestResults (Score Int) := ⟨[⟨c⟩], ⟨a⟩⟩
  let rsC : TestResults (Score Int) := ⟨[⟨a⟩], ⟨c⟩⟩
  let reA : TestResults (Error Int) := ⟨[⟨c⟩], ⟨a⟩⟩
  let reC : TestResults (Error Int) := ⟨[⟨a⟩], ⟨c⟩⟩
  let TS := TestResults.elem SI
  let TE := TestResults.elem EI
  String.join [
    code (ofElem SI true ⟨a⟩ ⟨c⟩),
    code (ofElem EI true ⟨a⟩ ⟨c⟩),
    code (ofTestResult Elem.int Elem.int (.score ⟨a⟩) (.score ⟨c⟩)),
    code (ofTestResult Elem.int Elem.int (.error ⟨a⟩) (.error ⟨c⟩)),
    code (ofTestResult Elem.int Elem.int (.score ⟨a⟩) (.error ⟨c⟩)),
    code (ofTestResult Elem.int Elem.int (.error ⟨a⟩) (.score ⟨c⟩)),
    code (ofElem TS true rsA rsC),
    code (ofElem TE true reA reC),
    code (ofElem (EcIndividual.elem Elem.int TS) true ⟨7, rsA⟩ ⟨7, rsC⟩),
    code (ofElem (EcIndividual.elem Elem.int TE) true ⟨7, reA⟩ ⟨7, reC⟩),
    code (ofElem (EcIndividual.elem Elem.int TS) true ⟨1, rsA⟩ ⟨2, rsC⟩)]

def specCodes (a c : Int) : String :=
  String.join [
    code (same .score a c), code (same .error a c),
    code (same .score a c false), code (same .error a c false),
    code mixed, code mixed,
    code (same .score a c) true, code (same .error a c) true,
    code (same .score a c) true, code (same .error a c) true,
    code (same .score a c) true]

def showR (rs : List Int) (t : Int) : String := s!"r={showIntList rs} t={t}"

/-- the genome generator of the `gen` request: `d` words -/
def drawGenome : Nat → Rand (List Nat)
  | 0 => .pure []
  | d + 1 => .ask (.user 1) fun a =>
    (drawGenome d).bind fun ws => .pure ((match a with | .nat w => w | _ => 0) :: ws)

/-- the scorer of the `gen` request -/
def scoreGenome (c : Int) (g : List Nat) : TestResults (Score Int) :=
  TestResults.fromScores (g.map fun w => (w % 100 : Nat) + c)

/-- `Ord`'s provided methods on one subject: `max(x, lo) min(x, lo) clamp(x, lo, hi)` -/
def ord3 {T : Type} (E : Elem T) (sh : T → String) (x lo hi : T) : String :=
  let c := match E.clamp x lo hi with | some r => sh r | none => "panic"
  s!"{sh (E.max x lo)} {sh (E.min x lo)} {c}"

/-- the subjects of the `ord3` request; collections and individuals carry a tag (1 = x, 2 = lo, 3 = hi) in a field
    the order ignores, so that *which* operand comes back is visible on ties -/
def ord3Codes (x lo hi : Int) : String :=
  let TS := TestResults.elem SI
  let TE := TestResults.elem EI
  let rs (tag v : Int) : TestResults (Score Int) := ⟨[⟨tag⟩], ⟨v⟩⟩
  let re (tag v : Int) : TestResults (Error Int) := ⟨[⟨tag⟩], ⟨v⟩⟩
  let shS (r : TestResults (Score Int)) : String := s!"{(r.results.map (·.v)).headD 0}:{r.total.v}"
  let shE (r : TestResults (Error Int)) : String := s!"{(r.results.map (·.v)).headD 0}:{r.total.v}"
  " | ".intercalate [
    ord3 SI (fun a => toString a.v) ⟨x⟩ ⟨lo⟩ ⟨hi⟩,
    ord3 EI (fun a => toString a.v) ⟨x⟩ ⟨lo⟩ ⟨hi⟩,
    ord3 TS shS (rs 1 x) (rs 2 lo) (rs 3 hi),
    ord3 TE shE (re 1 x) (re 2 lo) (re 3 hi),
    ord3 (EcIndividual.elem Elem.int TS) (fun i => s!"{i.genome}:{i.testResults.total.v}") ⟨1, rs 0 x⟩ ⟨2, rs 0 lo⟩ ⟨3, rs 0 hi⟩,
    ord3 (EcIndividual.elem Elem.int TE) (fun i => s!"{i.genome}:{i.testResults.total.v}") ⟨1, re 0 x⟩ ⟨2, re 0 lo⟩ ⟨3, re 0 hi⟩]

def handle (stdin stdout : IO.FS.Stream) (args : List String) : IO String := do
  match args with
  | ["cmp", a, cs] =>
    match parseInt? a, parseIntList? cs with
    | some a, some cs =>
      pure (" ".intercalate (cs.map (implCodes a)) ++ " ## " ++ " ".intercalate (cs.map (specCodes a)))
    | _, _ => pure "bad-request"
  | ["ord3", x, lo, hi] =>
    match parseInt? x, parseInt? lo, parseInt? hi with
    | some x, some lo, some hi => pure (ord3Codes x lo hi)
    | _, _, _ => pure "bad-request"
  | "sum" :: pol :: rest =>
    match parseIntList? (rest.headD "") with
    | some vs =>
      let impl := if pol == "score" then
          let r := TestResults.fromScores vs; showR (r.results.map (·.v)) r.total.v
        else
          let r := TestResults.fromErrors vs; showR (r.results.map (·.v)) r.total.v
      pure (impl ++ " ## " ++ showR vs (ResSpec.total vs))
    | none => pure "bad-request"
  | ["fsum", bits] =>
    -- float results (bit patterns): results in order and the left-fold total; NaN totals are printed as `nan`
    match (bits.splitOn ",").mapM String.toNat? with
    | some vs =>
      let r := TestResults.fromFloats (vs.map Nat.toUInt64)
      let t := if (Float.ofBits r.total).isNaN then "nan" else toString r.total.toNat
      pure s!"r={",".intercalate (r.results.map fun b => toString b.toNat)} t={t}"
    | none => pure "bad-request"
  | ["gen", d, c] =>
    match d.toNat?, parseInt? c with
    | some d, some c =>
      let i ← runIO stdin stdout (IndividualGenerator.sample (drawGenome d) (scoreGenome c))
      let g := showNatList i.genome
      let spec := (i.genome.map fun w => ((w % 100 : Nat) : Int) + c)
      pure (s!"g={g} " ++ showR (i.testResults.results.map (·.v)) i.testResults.total.v ++ " ## " ++
            s!"g={g} " ++ showR spec (ResSpec.total spec))
    | _, _ => pure "bad-request"
  | _ => pure "bad-request"

end Driver.ResFam
