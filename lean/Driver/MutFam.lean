/- Driver family `mut`: ec-linear mutators, Bitstring generators, Plushy gene generator (C11, C12). -/
import Uec.Model.Mutate
import Driver.RandIO
namespace Driver.MutFam
open Uec Uec.Lin Driver

def parseGenome (tok : String) : Option (List Nat) :=
  if tok == "-" then some [] else (tok.splitOn ",").mapM (·.toNat?)

def showGenome (l : List Nat) : String :=
  if l.isEmpty then "-" else ",".intercalate (l.map toString)

/-- like `runIO`, but also returns the answers that were given (for the native cross-check) -/
partial def runIOLog {α : Type} (stdin stdout : IO.FS.Stream) : Rand α → List Ans → IO (α × List Ans)
  | .pure a, log => pure (a, log.reverse)
  | .ask p k, log => do
    stdout.putStrLn ("NEED " ++ showPrim p)
    stdout.flush
    let line ← stdin.getLine
    match parseAns line.trimAscii.toString with
    | some a => runIOLog stdin stdout (k a) (a :: log)
    | none => throw (IO.userError s!"bad answer line: {line}")

/-- native `f32` comparison on bit patterns -/
def nativeLt (x y : Nat) : Bool := Float32.ofBits x.toUInt32 < Float32.ofBits y.toUInt32
/-- native `1.0f32 / (n as f32)` -/
def nativeRecip (n : Nat) : Nat := ((1.0 : Float32) / n.toFloat32).toBits.toNat

/-- every `f32` answer in the log: the exact comparison with `rate` agrees with the hardware's -/
def ltAgrees (rate : Nat) (log : List Ans) : Bool :=
  log.all fun a => match a with
    | .bits w => F32.lt w.toNat rate == nativeLt w.toNat rate
    | _ => true

/-- `Not` on gene codes: bools are 0/1, a tagged `i32` gene at position i is 2i and its bitwise negation 2i+1 -/
def gene01 (x : Nat) : Nat := if x % 2 == 0 then x + 1 else x - 1

def encP : PGene → Nat
  | .close => 0
  | .instr i => i + 1

def parseOptBits (s : String) : Option (Option UInt64) :=
  if s == "none" then some none else s.toNat?.map (fun n => some n.toUInt64)

def showM (r : MRes Nat) : String :=
  match r with
  | .ok c => s!"ok {showGenome c}"
  | .panic => "panic"

/-- requests (all replies end in ` native-mismatch` if an exact float function disagreed with the
    hardware `Float32`):
    * `mut wr <rateBits> <genome01>` → `ok <genome>`
    * `mut ool <genome01>` → `ok <genome> rate=<bits>`
    * `mut umad <add> <del> <empty|none> <genome>` → `ok <genome>` | `panic`   (new gene = code answered to `user 0`)
    * `mut umadp <add> <del> <empty|none> <closeBits> <genome>` → same, genes: 0 = Close, i+1 = instruction code i
    * `mut gene <closeBits> <n>` → `ok <genes>`;  `mut closep <numChoices>` → `<bits>`
    * `mut bits <n>` → `ok <bits>`;  `mut bitsp <n> <pBits>` → `ok <bits>` | `panic` -/
def handle (stdin stdout : IO.FS.Stream) (args : List String) : IO String := do
  match args with
  | ["wr", rate, g] =>
    match rate.toNat?, parseGenome g with
    | some rate, some g =>
      let (out, log) ← runIOLog stdin stdout (withRate rate gene01 g) []
      pure (s!"ok {showGenome out}" ++ (if ltAgrees rate log then "" else " native-mismatch"))
    | _, _ => pure "bad-request"
  | ["ool", g] =>
    match parseGenome g with
    | some g =>
      let rate := F32.recipOfNat g.length
      let (out, log) ← runIOLog stdin stdout (withOneOverLength gene01 g) []
      let okN := ltAgrees rate log && rate == nativeRecip g.length
      pure (s!"ok {showGenome out} rate={rate}" ++ (if okN then "" else " native-mismatch"))
    | none => pure "bad-request"
  | ["umad", add, del, empty, g] =>
    match add.toNat?, del.toNat?, parseOptBits empty, parseGenome g with
    | some add, some del, some empty, some g =>
      let cfg : UmadCfg := ⟨add.toUInt64, del.toUInt64, empty⟩
      pure (showM (← runIO stdin stdout (umad cfg (reqUser 0) g)))
    | _, _, _, _ => pure "bad-request"
  | ["umadp", add, del, empty, close, g] =>
    match add.toNat?, del.toNat?, parseOptBits empty, close.toNat?, parseGenome g with
    | some add, some del, some empty, some close, some g =>
      let cfg : UmadCfg := ⟨add.toUInt64, del.toUInt64, empty⟩
      let gen : Rand Nat := do let x ← geneGen close 0; pure (encP x)
      let (r, log) ← runIOLog stdin stdout (umad cfg gen g) []
      pure (showM r ++ (if ltAgrees close log then "" else " native-mismatch"))
    | _, _, _, _, _ => pure "bad-request"
  | ["gene", close, n] =>
    match close.toNat?, n.toNat? with
    | some close, some n =>
      let (out, log) ← runIOLog stdin stdout (collect (geneGen close 0) n) []
      pure (s!"ok {showGenome (out.map encP)}" ++ (if ltAgrees close log then "" else " native-mismatch"))
    | _, _ => pure "bad-request"
  | ["closecut", n] =>
    -- the default close probability of a gene generator over `n` instructions, as the number of f32 grid draws
    -- `k·2⁻²⁴` that are below it (what the probability does; independent of how the value is stored)
    match n.toNat? with
    | some n => pure s!"{F32.cutoff (uniformCloseProbability n)}"
    | none => pure "bad-request"
  | ["cut", bits] =>
    match bits.toNat? with
    | some b => pure s!"{F32.cutoff b}"
    | none => pure "bad-request"
  | ["oolrate", n] =>
    -- the rate `WithOneOverLength` derives for a genome of `n` genes (bits of fl32(1/fl32(n)))
    match n.toNat? with
    | some n =>
      let b := F32.recipOfNat n
      pure (s!"{b}" ++ (if b == nativeRecip n then "" else " native-mismatch"))
    | none => pure "bad-request"
  | ["closep", n] =>
    match n.toNat? with
    | some n =>
      let b := uniformCloseProbability n
      pure (s!"{b}" ++ (if b == nativeRecip (n + 1) then "" else " native-mismatch"))
    | none => pure "bad-request"
  | ["bits", n] =>
    match n.toNat? with
    | some n =>
      let out ← runIO stdin stdout (bitstringRandom n)
      pure s!"ok {showGenome (out.map (fun b => if b then 1 else 0))}"
    | none => pure "bad-request"
  | ["bitsp", n, p] =>
    match n.toNat?, p.toNat? with
    | some n, some p =>
      match ← runIO stdin stdout (bitstringRandomP n p.toUInt64) with
      | .ok out => pure s!"ok {showGenome (out.map (fun b => if b then 1 else 0))}"
      | .panic => pure "panic"
    | _, _ => pure "bad-request"
  | _ => pure "bad-request"

end Driver.MutFam
