/- Driver family `stack`: histories of stack operations (C04). -/
import Uec.Model.StackSpec
import Driver.Util
namespace Driver.StackFam
open Uec Driver

def parseOp (tok : String) : Option (StackOp Int) :=
  match tok.splitOn ":" with
  | ["pop"] => some .pop | ["pop2"] => some .pop2 | ["pop3"] => some .pop3
  | ["top"] => some .top | ["top2"] => some .top2 | ["top3"] => some .top3
  | ["size"] => some .size | ["isEmpty"] => some .isEmpty | ["isFull"] => some .isFull
  | ["maxSize"] => some .maxSize
  | ["push", v] => (parseInt? v).map .push
  | ["discard", n] => (parseNat? n).map .discard
  | ["setMax", n] => (parseNat? n).map .setMax
  | ["pushMany", l] => (parseIntList? l).map .pushMany
  | ["tryExtend", l] => (parseIntList? l).map .tryExtend
  | _ => none

def showErr : StackErr → String
  | .underflow r p => s!"underflow({r},{p})"
  | .overflow => "overflow"

def showOut : StackOut Int → String
  | .unit => "ok"
  | .v1 x => s!"v:{x}"
  | .v2 x y => s!"v:{x},{y}"
  | .v3 x y z => s!"v:{x},{y},{z}"
  | .nat n => s!"n:{n}"
  | .bool b => s!"b:{b}"
  | .err e => s!"err:{showErr e}"
  | .ext none c => s!"ext:ok:{c}"
  | .ext (some e) c => s!"ext:{showErr e}:{c}"

/-- request: `<max> <op> <op> …`; reply: `<impl outputs> | vals:<bottom first> max:<m> ## <spec …>` -/
def handle (args : List String) : String :=
  match args with
  | [] => "bad-request"
  | m :: ops =>
    match parseNat? m, ops.mapM parseOp with
    | some m, some ops =>
      let (s, outs) := (Stack.empty m : Stack Int).run ops
      let (t, souts) := (SStack.mk m [] : SStack Int).run ops
      let impl := " ".intercalate (outs.map showOut) ++ s!" | vals:{showIntList s.values} max:{s.max}"
      let spec := " ".intercalate (souts.map showOut) ++ s!" | vals:{showIntList t.items.reverse} max:{t.max}"
      impl ++ " ## " ++ spec
    | _, _ => "bad-request"

end Driver.StackFam
