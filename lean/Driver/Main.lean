/-
  uec-driver: line protocol driver for the correspondence check.
  One request per line (`<family> <args…>`), one reply per line.  Stochastic families may
  interleave `NEED <prim>` lines, each answered by one line on stdin.
-/
import Driver.StackFam
import Driver.SelFam
import Driver.PlushyFam
import Driver.PushFam
import Driver.BuilderFam
import Driver.XoFam
import Driver.MutFam
import Driver.OpsFam
import Driver.ResFam
import Driver.GenFam
import Driver.GenerationFam
open Driver

def dispatch (stdin stdout : IO.FS.Stream) (line : String) : IO String := do
  match splitWs line with
  | "stack" :: args => pure (StackFam.handle args)
  | "sel" :: args => SelFam.handle stdin stdout args
  | "plushy" :: args => pure (PlushyFam.handle args)
  | "push" :: args => pure (PushFam.handle args)
  | "builder" :: args => pure (BuilderFam.handle args)
  | "lexspec" :: args => pure (SelFam.handleSpec args)
  | "xo" :: args => XoFam.handle stdin stdout args
  | "mut" :: args => MutFam.handle stdin stdout args
  | "ops" :: args => OpsFam.handle stdin stdout args
  | "res" :: args => ResFam.handle stdin stdout args
  | "gen" :: args => GenFam.handle stdin stdout args
  | "generation" :: args => GenerationFam.handle stdin stdout args
  | "ping" :: _ => pure "pong"
  | _ => pure "bad-family"

partial def loop (stdin stdout : IO.FS.Stream) : IO Unit := do
  let line ← stdin.getLine
  if line.isEmpty then return ()
  let reply ← dispatch stdin stdout (line.trimAscii.toString)
  stdout.putStrLn reply
  stdout.flush
  loop stdin stdout

def main : IO Unit := do
  loop (← IO.getStdin) (← IO.getStdout)
