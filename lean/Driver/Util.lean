/- Small parsing / printing helpers shared by the driver families (core Lean only). -/
namespace Driver

def splitWs (s : String) : List String :=
  (s.splitOn " ").filter (· ≠ "")

def parseInt? (s : String) : Option Int := s.toInt?
def parseNat? (s : String) : Option Nat := s.toNat?

/-- comma separated ints; empty string = empty list -/
def parseIntList? (s : String) : Option (List Int) :=
  if s.isEmpty then some [] else (s.splitOn ",").mapM parseInt?

def showIntList (l : List Int) : String := ",".intercalate (l.map toString)

end Driver
