/- Driver family `gen`: collection generators and uniform choices (C18). -/
import Uec.Model.Gen
import Driver.RandIO
namespace Driver.GenFam
open Uec Uec.Gen Driver

/-- like `runIO`, but also returns the answers that were given (to replay them on the Spec) -/
partial def runIOLog {α : Type} (stdin stdout : IO.FS.Stream) (m : Rand α) (log : Array Ans := #[]) :
    IO (α × Array Ans) :=
  match m with
  | .pure a => pure (a, log)
  | .ask p k => do
    stdout.putStrLn ("NEED " ++ showPrim p)
    stdout.flush
    let line ← stdin.getLine
    match parseAns line.trimAscii.toString with
    | some a => runIOLog stdin stdout (k a) (log.push a)
    | none => throw (IO.userError s!"bad answer line: {line}")

/-- element generator grammar (prefix): `probe d` | `bool` | `boolp bits` | `gene cpbits m kind` |
    `coll n E` | `ind E` -/
def parseElem : Nat → List String → Option (Elem × List String)
  | 0, _ => none
  | _ + 1, "probe" :: d :: rest => d.toNat?.map (fun d => (.probe d, rest))
  | _ + 1, "bool" :: rest => some (.bool, rest)
  | _ + 1, "boolp" :: b :: rest => b.toNat?.map (fun b => (.boolP b.toUInt64, rest))
  | _ + 1, "gene" :: cp :: m :: k :: rest => do
    let cp ← cp.toNat?
    let m ← m.toNat?
    let k ← match k with
      | "oneof" => some InstrKind.oneOf
      | "choosecloning" => some InstrKind.chooseCloning
      | "probe" => some InstrKind.probe
      | _ => none
    pure (.gene cp.toUInt32 m k, rest)
  | f + 1, "coll" :: n :: rest => do
    let n ← n.toNat?
    let (e, rest) ← parseElem f rest
    pure (.coll n e, rest)
  | f + 1, "ind" :: rest => do
    let (e, rest) ← parseElem f rest
    pure (.ind e, rest)
  | _, _ => none

mutual
  partial def showVal : Val → String
    | .int i => toString i
    | .list l => "[" ++ ",".intercalate (l.map showVal) ++ "]"
    | .panic => "panic"
end

/-- nested sizes only (what C18 fixes about a generated collection) -/
partial def showShape : Val → String
  | .int _ => "."
  | .list l => "[" ++ ",".intercalate (l.map showShape) ++ "]"
  | .panic => "panic"

/-- the Spec reading of an element generator: collections are `specCollect` -/
def specSample : Elem → Rand Val
  | .coll n e => .list <$> specCollect (specSample e) n
  | .ind e => do
    let genome ← specSample e
    pure (.list [genome, .int genome.total])
  | e => e.sample

def parseFlavour : String → Option Flavour
  | "vecIntoOwned" => some .vecIntoOwned
  | "refVecIntoRef" => some .refVecIntoRef
  | "refVecIntoOwned" => some .refVecIntoOwned
  | "vecToOwned" => some .vecToOwned
  | "vecToRef" => some .vecToRef
  | "arrIntoOwned" => some .arrIntoOwned
  | "refArrIntoRef" => some .refArrIntoRef
  | "refArrIntoOwned" => some .refArrIntoOwned
  | "arrToOwned" => some .arrToOwned
  | "arrToRef" => some .arrToRef
  | "sliceIntoRef" => some .sliceIntoRef
  | "sliceIntoOwned" => some .sliceIntoOwned
  | "sliceToRef" => some .sliceToRef
  | "sliceToOwned" => some .sliceToOwned
  | "oneOfNew" => some .oneOfNew
  | "chooseCloningNew" => some .chooseCloningNew
  | "macroOf" => some .macroOf
  | _ => none

def showFlavour (f : Flavour) : String :=
  match f with
  | .vecIntoOwned => "vecIntoOwned" | .refVecIntoRef => "refVecIntoRef" | .refVecIntoOwned => "refVecIntoOwned"
  | .vecToOwned => "vecToOwned" | .vecToRef => "vecToRef" | .arrIntoOwned => "arrIntoOwned"
  | .refArrIntoRef => "refArrIntoRef" | .refArrIntoOwned => "refArrIntoOwned" | .arrToOwned => "arrToOwned"
  | .arrToRef => "arrToRef" | .sliceIntoRef => "sliceIntoRef" | .sliceIntoOwned => "sliceIntoOwned"
  | .sliceToRef => "sliceToRef" | .sliceToOwned => "sliceToOwned" | .oneOfNew => "oneOfNew"
  | .chooseCloningNew => "chooseCloningNew" | .macroOf => "macroOf"

/-- kind of distribution a flavour yields (inventory cross-check with the Rust types) -/
def kindOf (f : Flavour) : String :=
  match f.build [(0 : Int)] with
  | .ok (.oneOfCloning _) => "OneOfCloning"
  | .ok (.chooseCloning _) => "ChooseCloning"
  | .ok (.choose _) => "Choose"
  | _ => "?"

def showSampled : Sampled Int → String
  | .value i v => s!"{i}:{v}"
  | .panic => "panic"

def parseSampled (s : String) : Option (Sampled Int) :=
  if s == "panic" then some .panic else
  match s.splitOn ":" with
  | [i, v] => do pure (.value (← i.toNat?) (← v.toInt?))
  | _ => none

def sampleK (stdin stdout : IO.FS.Stream) (d : Dist Int) : Nat → IO (List (Sampled Int))
  | 0 => pure []
  | k + 1 => do
    let s ← runIO stdin stdout d.sample
    let rest ← sampleK stdin stdout d k
    pure (s :: rest)

/--
  `gen coll <E>`                         → `ok <value> | spec <value>`  (Spec run on the same answers)
  `gen choice <flavour> <k> | v1 v2 …`   → `err EmptySlice` | `panic` | `ok <num_choices> i:v i:v …`
  `gen specchoice <ok|err|panic> <num> <i:v,…|-> | v1 v2 …` → `t` / `f <why>`  (Lean Spec as oracle for a real result)
  `gen inventory`                        → `<flavour>=<kind> …`
-/
def handle (stdin stdout : IO.FS.Stream) (args : List String) : IO String := do
  match args with
  | "coll" :: toks =>
    match parseElem 64 toks with
    | some (e, []) =>
      let (v, log) ← runIOLog stdin stdout e.sample
      let spec := match (specSample e).run log.toList with
        | some (sv, []) => showVal sv
        | some (_, _) => "spec-left-answers-unread"
        | none => "spec-needs-more-answers"
      pure s!"ok {showVal v} | spec {spec} | shape {showShape v}"
    | _ => pure "bad-request"
  | "choice" :: fl :: k :: "|" :: vals =>
    match parseFlavour fl, k.toNat?, vals.mapM String.toInt? with
    | some f, some k, some c =>
      match f.build c with
      | .err .emptySlice => pure "err EmptySlice"
      | .panic => pure "panic"
      | .ok d =>
        let ss ← sampleK stdin stdout d k
        pure s!"ok {d.numChoices} {" ".intercalate (ss.map showSampled)}"
    | _, _, _ => pure "bad-request"
  | "specchoice" :: built :: num :: samples :: "|" :: vals =>
    match num.toNat?, vals.mapM String.toInt?,
          (if samples == "-" then some [] else (samples.splitOn ",").mapM parseSampled) with
    | some num, some c, some ss =>
      if built == "panic" then pure "f building-panicked" else
      if (built == "ok") != specBuildOk c then pure "f empty-source-must-be-rejected-and-only-it" else
      if built == "ok" && num != specNumChoices c then pure "f num_choices" else
      if ss.all (specSampleOk c) then pure "t" else pure "f sample-not-a-member"
    | _, _, _ => pure "bad-request"
  | ["inventory"] =>
    pure (" ".intercalate (Flavour.all.map (fun f => s!"{showFlavour f}={kindOf f}")))
  | _ => pure "bad-request"

end Driver.GenFam
