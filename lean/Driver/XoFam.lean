/- Driver family `xo`: ec-linear recombinators and exchange primitives (C10). -/
import Uec.Model.Crossover
import Driver.RandIO
namespace Driver.XoFam
open Uec Uec.Lin Driver

/-- genome token: comma separated naturals, `-` for the empty genome (bits are 0/1) -/
def parseGenome (tok : String) : Option (List Nat) :=
  if tok == "-" then some [] else (tok.splitOn ",").mapM (·.toNat?)

def showGenome (l : List Nat) : String :=
  if l.isEmpty then "-" else ",".intercalate (l.map toString)

def showErr : XoErr → String
  | .differentLength a b => s!"DifferentGenomeLength({a},{b})"
  | .geneAccess i n => s!"GeneAccess({i},{n})"
  | .geneAccessRange s e n => s!"GeneAccessRange({s},{e},{n})"

def showRes : Res (List Nat) → String
  | .ok c => s!"ok {showGenome c}"
  | .err e => s!"err {showErr e}"
  | .panic => "panic"

def showExch (x : Exch Nat) : String :=
  let e := match x.err with | none => "ok" | some e => s!"err:{showErr e}"
  s!"{e} {showGenome x.first} {showGenome x.second}"

def showSpecExch (x : List Nat × List Nat × Bool) : String :=
  s!"{if x.2.2 then "ok" else "err"} {showGenome x.1} {showGenome x.2.1}"

/-- requests
    * `xo tpvec|tpg|univec|unig <p1> <p2>` → `ok <child>` | `err <e>` | `panic`  (interactive)
    * `xo gene <a> <b> <i>`, `xo seg <a> <b> <s> <e>` → `<impl> ## <spec>` with
      impl = `ok|err:<e> <a'> <b'>`, spec = `ok|err <a'> <b'>` -/
def handle (stdin stdout : IO.FS.Stream) (args : List String) : IO String := do
  match args with
  | [op, a, b] =>
    match parseGenome a, parseGenome b with
    | some p1, some p2 =>
      let m? : Option (Rand (Res (List Nat))) := match op with
        | "tpvec" => some (twoPointVec p1 p2)
        | "tpg" => some (twoPointG p1 p2)
        | "univec" => some (uniformVec p1 p2)
        | "unig" => some (uniformG p1 p2)
        | _ => none
      match m? with
      | some m => pure (showRes (← runIO stdin stdout m))
      | none => pure "bad-request"
    | _, _ => pure "bad-request"
  | ["gene", a, b, i] =>
    match parseGenome a, parseGenome b, i.toNat? with
    | some a, some b, some i =>
      pure (showExch (crossoverGene a b i) ++ " ## " ++ showSpecExch (Spec.crossoverGene a b i))
    | _, _, _ => pure "bad-request"
  | ["seg", a, b, s, e] =>
    match parseGenome a, parseGenome b, s.toNat?, e.toNat? with
    | some a, some b, some s, some e =>
      pure (showExch (crossoverSegment a b s e) ++ " ## " ++ showSpecExch (Spec.crossoverSegment a b s e))
    | _, _, _, _ => pure "bad-request"
  | _ => pure "bad-request"

end Driver.XoFam
