/- Driver family `push`: single instructions and whole runs on a Push state (C01, C02, C03, C16). -/
import Uec.Model.PushSpec
import Driver.Util
namespace Driver.PushFam
open Uec Driver

def hexDigit (n : Nat) : Char := if n < 10 then Char.ofNat (48 + n) else Char.ofNat (87 + n)
def toHex (s : String) : String :=
  String.ofList (s.toUTF8.toList.flatMap fun b => [hexDigit (b.toNat / 16), hexDigit (b.toNat % 16)])
def hexVal (c : Char) : Option Nat :=
  if '0' ≤ c ∧ c ≤ '9' then some (c.toNat - 48)
  else if 'a' ≤ c ∧ c ≤ 'f' then some (c.toNat - 87) else none
def fromHexBytes : List Char → Option (List UInt8)
  | [] => some []
  | a :: b :: r => do
    let x ← hexVal a; let y ← hexVal b; let rest ← fromHexBytes r
    pure (UInt8.ofNat (x * 16 + y) :: rest)
  | _ => none
def fromHex (s : String) : Option String := do
  let bs ← fromHexBytes s.toList
  String.fromUTF8? (ByteArray.mk bs.toArray)

def lookupName {α : Type} (tbl : List (String × α)) (n : String) : Option α :=
  (tbl.find? (·.1 == n)).map (·.2)
def nameOf {α : Type} [BEq α] (tbl : List (String × α)) (v : α) : String :=
  ((tbl.find? (·.2 == v)).map (·.1)).getD "?"

def parseBool? : String → Option Bool
  | "t" => some true | "f" => some false | _ => none

def parseInstr0 (tok : String) : Option Instr0 :=
  match tok.splitOn ":" with
  | ["I.Push", v] => (parseInt? v).map fun z => .int (.push (Int64.ofInt z))
  | ["F.Push", v] => v.toNat?.map fun n => .float (.push n.toUInt64)
  | ["B.Push", v] => (parseBool? v).map fun b => .bool (.push b)
  | ["V", n] => some (.inputVar n)
  | ["P.Space"] => some .printSpace
  | ["P.Newline"] => some .printNewline
  | ["P.Period"] => some .printPeriod
  | ["P.String", h] => (fromHex h).map .printString
  | ["P.String"] => some (.printString "")
  | [t] =>
    if t.startsWith "I." then (lookupName IntI.names (t.drop 2).toString).map .int
    else if t.startsWith "F." then (lookupName FloatI.names (t.drop 2).toString).map .float
    else if t.startsWith "B." then (lookupName BoolI.names (t.drop 2).toString).map .bool
    else if t.startsWith "E." then (lookupName ExecI.names (t.drop 2).toString).map .exec
    else none
  | _ => none

/-- parse one program from the token list (fuel = number of tokens) -/
def parseProg : Nat → List String → Option (Prog × List String)
  | 0, _ => none
  | _ + 1, [] => none
  | fuel + 1, "(" :: rest => do
    let (ps, rest') ← parseProgsUntilClose fuel rest
    pure (.block ps, rest')
  | fuel + 1, "E.Push" :: rest => do
    let (p, rest') ← parseProg fuel rest
    pure (.execPush p, rest')
  | _ + 1, tok :: rest => (parseInstr0 tok).map fun i => (.instr i, rest)
where
  parseProgsUntilClose : Nat → List String → Option (List Prog × List String)
    | 0, _ => none
    | _ + 1, [] => none
    | _ + 1, ")" :: rest => some ([], rest)
    | fuel + 1, toks => do
      let (p, rest) ← parseProg fuel toks
      let (ps, rest') ← parseProgsUntilClose fuel rest
      pure (p :: ps, rest')

def parseProgs (fuel : Nat) : List String → Option (List Prog)
  | [] => some []
  | toks =>
    match fuel with
    | 0 => none
    | fuel + 1 => do
      let (p, rest) ← parseProg (fuel + 1) toks
      let ps ← parseProgs fuel rest
      pure (p :: ps)

def showInstr0 : Instr0 → String
  | .inputVar n => s!"V:{n}"
  | .exec e => "E." ++ nameOf ExecI.names e
  | .bool (.push b) => s!"B.Push:{if b then "t" else "f"}"
  | .bool b => "B." ++ nameOf BoolI.names b
  | .int (.push v) => s!"I.Push:{v.toInt}"
  | .int i => "I." ++ nameOf IntI.names i
  | .float (.push v) => s!"F.Push:{v.toNat}"
  | .float f => "F." ++ nameOf FloatI.names f
  | .printSpace => "P.Space"
  | .printNewline => "P.Newline"
  | .printPeriod => "P.Period"
  | .printString s => if s.isEmpty then "P.String" else "P.String:" ++ toHex s

mutual
def showProg : Prog → List String
  | .instr i => [showInstr0 i]
  | .execPush p => "E.Push" :: showProg p
  | .block ps => ["("] ++ showProgs ps ++ [")"]
def showProgs : List Prog → List String
  | [] => []
  | p :: ps => showProg p ++ showProgs ps
end

def showErr : Err → String
  | .stack (.underflow r p) => s!"underflow({r},{p})"
  | .stack .overflow => "overflow"
  | .intOverflow op => s!"intoverflow({nameOf IntI.names op})"

def showOut : OutTok → String
  | .str s => "s" ++ toHex s
  | .float b => s!"f{b.toNat}"

def showState (s : PState) : String :=
  " ".intercalate (showProgs s.exec.values) ++ " | " ++
  " ".intercalate (s.int.values.map fun x => toString x.toInt) ++ " | " ++
  " ".intercalate (s.float.values.map fun x => toString x.toNat) ++ " | " ++
  " ".intercalate (s.bool.values.map fun b => if b then "t" else "f") ++ " | " ++
  " ".intercalate (s.out.map showOut)

def parseLit (tok : String) : Option (String × Lit) :=
  match tok.splitOn "=" with
  | [n, v] =>
    match v.splitOn ":" with
    | ["I", x] => (parseInt? x).map fun z => (n, .int (Int64.ofInt z))
    | ["F", x] => x.toNat?.map fun b => (n, .float b.toUInt64)
    | ["B", x] => (parseBool? x).map fun b => (n, .bool b)
    | _ => none
  | _ => none

/-- split a token list at the `|` separators -/
def sections (toks : List String) : List (List String) :=
  toks.foldr (fun t acc => if t == "|" then [] :: acc else
    match acc with | [] => [[t]] | h :: r => (t :: h) :: r) [[]]

def parseState (hdr exec ints floats bools inputs : List String) : Option PState := do
  match hdr with
  | [ms, em, im, fm, bm] =>
    let ms ← ms.toNat?; let em ← em.toNat?; let im ← im.toNat?; let fm ← fm.toNat?; let bm ← bm.toNat?
    let ex ← parseProgs (exec.length + 1) exec
    let is ← ints.mapM parseInt?
    let fs ← floats.mapM (·.toNat?)
    let bs ← bools.mapM parseBool?
    let inp ← inputs.mapM parseLit
    pure { exec := ⟨em, ex⟩, int := ⟨im, is.map Int64.ofInt⟩, float := ⟨fm, fs.map (·.toUInt64)⟩,
           bool := ⟨bm, bs⟩, inputs := inp, out := [], maxSteps := ms }
  | _ => none

def showOutcome : Outcome PState → String
  | .ok s => "ok | " ++ showState s
  | .recoverable s e => s!"rec:{showErr e} | " ++ showState s
  | .fatal s e => s!"fatal:{showErr e} | " ++ showState s
  | .panic => "panic"

def showRun : Impl.RunResult → String
  | .done s k => s!"ok | {k} | " ++ showState s
  | .error s e k => s!"fatal:{showErr e} | {k} | " ++ showState s
  | .panic => "panic"

/-- `push run <hdr> | exec | ints | floats | bools | inputs`
    `push perform <hdr> | exec | ints | floats | bools | inputs | <one program>`
    `push inventory` -/
def handle (args : List String) : String :=
  match args with
  | ["inventory"] =>
    " ".intercalate ((IntI.names.map fun p => "I." ++ p.1) ++ (FloatI.names.map fun p => "F." ++ p.1) ++
      (BoolI.names.map fun p => "B." ++ p.1) ++ (ExecI.names.map fun p => "E." ++ p.1) ++
      ["I.Push", "F.Push", "B.Push", "E.Push"])
  | "opens" :: toks =>
    -- the documented number of blocks each of the given instructions opens when used as a gene
    match parseProgs (toks.length + 1) toks with
    | some ps => " ".intercalate (ps.map fun p => toString p.numOpens)
    | none => "bad-request"
  | mode :: rest =>
    match mode, sections rest with
    | "run", [hdr, exec, ints, floats, bools, inputs] =>
      match parseState hdr exec ints floats bools inputs with
      | some s => showRun (Impl.run s) ++ " ## " ++ showRun (Spec.run s)
      | none => "bad-request"
    | "perform", [hdr, exec, ints, floats, bools, inputs, prog] =>
      match parseState hdr exec ints floats bools inputs, parseProgs (prog.length + 1) prog with
      | some s, some [p] => showOutcome (Impl.perform p s) ++ " ## " ++ showOutcome (Spec.perform p s)
      | _, _ => "bad-request"
    | _, _ => "bad-request"
  | _ => "bad-request"

end Driver.PushFam
