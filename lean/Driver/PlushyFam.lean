/- Driver family `plushy`: genome → program (C05). Instructions are `(name, opens)`. -/
import Uec.Model.PlushySpec
import Driver.Util
namespace Driver.PlushyFam
open Uec Uec.Plushy Driver

abbrev I := String × Nat

def parseGene (tok : String) : Option (Gene I) :=
  if tok == "c" then some .close else
  match tok.splitOn "/" with
  | [name, k] => k.toNat?.map (fun k => .instr (name, k))
  | _ => none

mutual
def showTrees : List (Tree I) → List String
  | [] => []
  | t :: ts => showTree t ++ showTrees ts
def showTree : Tree I → List String
  | .instr (n, _) => [n]
  | .block ps => ["("] ++ showTrees ps ++ [")"]
end

/-- request: gene tokens; reply: `<impl program> ## <automaton program>` -/
def handle (args : List String) : String :=
  match args.mapM parseGene with
  | some genes =>
    let impl := toProgram Prod.snd genes
    let spec := automaton Prod.snd genes
    " ".intercalate (showTrees impl) ++ " ## " ++ " ".intercalate (showTrees spec)
  | none => "bad-request"

end Driver.PlushyFam
