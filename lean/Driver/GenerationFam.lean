/- Driver family `generation`: `Generation::serial_next` / `par_next` with the probe child maker (C09). -/
import Uec.Model.Generation
import Driver.RandIO
namespace Driver.GenerationFam
open Uec Uec.Generation Driver

abbrev Ind := List Int × Int

/-- individual token `g1,g2,…:score` -/
def parseInd (tok : String) : Option Ind :=
  match tok.splitOn ":" with
  | [g, s] => do pure ((← parseIntList? g), (← s.toInt?))
  | _ => none

def showInd (i : Ind) : String := s!"{showIntList i.1}:{i.2}"
def showPop (p : List Ind) : String := " ".intercalate (p.map showInd)

def parseNats (s : String) : Option (List Nat) :=
  if s == "-" then some [] else (s.splitOn ",").mapM String.toNat?

/-- `pos.thread,pos.thread,…` -/
def parseOrder (s : String) : Option (List Slot) :=
  if s == "-" then some [] else
  (s.splitOn ",").mapM (fun t => match t.splitOn "." with
    | [p, th] => do pure ⟨← p.toNat?, ← th.toNat?⟩
    | _ => none)

/-- tape tokens `T<thread>=n,n,n` -/
def parseTapes (toks : List String) : Option (List (Nat × List Ans)) :=
  toks.mapM (fun t =>
    if t.startsWith "T" then
      match (t.drop 1).toString.splitOn "=" with
      | [th, vs] => do
        let th ← th.toNat?
        let vs ← parseNats (if vs.isEmpty then "-" else vs)
        pure (th, vs.map Ans.nat)
      | _ => none
    else none)

def tapesOf (l : List (Nat × List Ans)) : Tapes := fun th =>
  match l.find? (·.1 == th) with
  | some (_, t) => t
  | none => []

def showResult (r : Except Nat Unit) (after : List Ind) : String :=
  match r with
  | .ok _ => s!"ok | {showPop after}"
  | .error e => s!"err {e} | {showPop after}"

/--
  `generation serial <d> <failAt|-> | <ind>…`                       → `ok | <ind>…` / `err <call> | <ind>…`
      (the probe's requests `user 0` = call number, `user 1` = word are answered from the real call log)
  `generation par <d> <failAt|-> <extra> <pick> <order|-> <T..>… | <ind>…` → same / `short`
  `generation spec <ok|err> | <old ind>… | <after ind>…`             → `t` / `f`   (Lean Spec as oracle on an observed step)
-/
def handle (stdin stdout : IO.FS.Stream) (args : List String) : IO String := do
  match args with
  | "serial" :: d :: fails :: "|" :: inds =>
    match d.toNat?, parseNats fails, inds.mapM parseInd with
    | some d, some failAt, some pop =>
      let (r, after) ← runIO stdin stdout (serialNext (probeChildMaker failAt d) pop)
      pure (showResult r after)
    | _, _, _ => pure "bad-request"
  | "par" :: d :: fails :: extra :: pick :: order :: rest =>
    let tapeToks := rest.takeWhile (· ≠ "|")
    let inds := (rest.dropWhile (· ≠ "|")).drop 1
    match d.toNat?, parseNats fails, extra.toNat?, pick.toNat?, parseOrder order, parseTapes tapeToks, inds.mapM parseInd with
    | some d, some failAt, some extra, some pick, some order, some tapes, some pop =>
      match parNext (probeChildMaker failAt d) pop { order, extra, pick } (tapesOf tapes) with
      | none => pure "short"
      | some (r, after, T') =>
        let unread := (tapes.map (fun x => (T' x.1).length)).foldl (· + ·) 0
        pure s!"{showResult r after} | unread {unread}"
    | _, _, _, _, _, _, _ => pure "bad-request"
  | "spec" :: kind :: "|" :: rest =>
    let oldToks := rest.takeWhile (· ≠ "|")
    let afterToks := (rest.dropWhile (· ≠ "|")).drop 1
    match oldToks.mapM parseInd, afterToks.mapM parseInd with
    | some old, some after =>
      let cs := checksum (old.map (fun i => i.1 ++ [i.2]))
      let shownOld : Ind → Bool := fun c => c.1.head? == some cs && c.2 == probeScore c.1
      pure (if specStep shownOld old (kind == "ok") after then "t" else "f")
    | _, _ => pure "bad-request"
  | _ => pure "bad-request"

end Driver.GenerationFam
