/- Driver family `sel`: selectors on a population (C06, C07, C08, C13). -/
import Uec.Model.Select
import Driver.RandIO
namespace Driver.SelFam
open Uec Driver

/-- individual token: `<key>:<r1>,<r2>,…` -/
def parseInd (tok : String) : Option Ind :=
  match tok.splitOn ":" with
  | [k, rs] => do
    let key ← parseInt? k
    let results ← parseIntList? rs
    pure { key, results }
  | _ => none

mutual
/-- selector terms in prefix notation:
    `best | worst | random | tournament K | lexicase N | probe I | weighted W <s> | pair <a> <b> |
     dyn N W1 <s1> … WN <sN> | ref <s> | erased <s>`; returns the term and the unread tokens -/
def parseSel (fuel : Nat) (toks : List String) : Option (Sel × List String) :=
  match fuel with
  | 0 => none
  | fuel + 1 =>
    match toks with
    | "best" :: r => some (.best, r)
    | "worst" :: r => some (.worst, r)
    | "random" :: r => some (.random, r)
    | "tournament" :: k :: r => k.toNat?.map fun k => (.tournament k, r)
    | "lexicase" :: n :: r => n.toNat?.map fun n => (.lexicase n, r)
    | "probe" :: i :: r => i.toNat?.map fun i => (.probe i, r)
    | "weighted" :: w :: r => do
      let w ← w.toNat?
      let (s, r) ← parseSel fuel r
      pure (.weighted s w, r)
    | "pair" :: r => do
      let (a, r) ← parseSel fuel r
      let (b, r) ← parseSel fuel r
      pure (.pair a b, r)
    | "dyn" :: n :: r => do
      let n ← n.toNat?
      let (l, r) ← parseItems fuel n r
      pure (.dyn l, r)
    | "ref" :: r => do
      let (s, r) ← parseSel fuel r
      pure (.byRef s, r)
    | "erased" :: r => do
      let (s, r) ← parseSel fuel r
      pure (.erased s, r)
    | _ => none
def parseItems (fuel : Nat) (n : Nat) (toks : List String) : Option (List (Sel × Nat) × List String) :=
  match fuel with
  | 0 => none
  | fuel + 1 =>
    match n, toks with
    | 0, r => some ([], r)
    | n + 1, w :: r => do
      let w ← w.toNat?
      let (s, r) ← parseSel fuel r
      let (l, r) ← parseItems fuel n r
      pure ((s, w) :: l, r)
    | _, _ => none
end

def showErr : SelErr → String
  | .emptyPopulation => "EmptyPopulation"
  | .tournamentSize k n => s!"TournamentSize({k},{n})"
  | .lexEmpty => "LexEmpty"
  | .missingTestCase t i => s!"MissingTestCase({t},{i})"
  | .zeroWeight => "ZeroWeight"
  | .selector e => s!"Selector({showErr e})"
  | .a e => s!"A({showErr e})"
  | .b e => s!"B({showErr e})"
  | .dynWeight false => "DynZeroWeight"
  | .dynWeight true => "DynOverflow"
  | .dynOther e => s!"DynOther({showErr e})"
  | .boxed e => s!"Boxed({showErr e})"

/-- request: `sel <score|error> <selector term> | <ind> <ind> …`;
    reply `ok <index>` / `err <e>` / `builderr <a> <b>` (a `WeightedPair::new` overflowed) -/
def handle (stdin stdout : IO.FS.Stream) (args : List String) : IO String := do
  match args with
  | pol :: rest =>
    let selToks := rest.takeWhile (· ≠ "|")
    let indToks := (rest.dropWhile (· ≠ "|")).drop 1
    match parseSel (selToks.length + 1) selToks, indToks.mapM parseInd with
    | some (sel, []), some pop =>
      match sel.build with
      | .error (a, b) => pure s!"builderr {a} {b}"
      | .ok _ =>
        let r ← runIO stdin stdout (sel.select (pol == "score") pop)
        match r with
        | .ok i => pure s!"ok {i}"
        | .error e => pure s!"err {showErr e}"
    | _, _ => pure "bad-request"
  | _ => pure "bad-request"

/-- request: `lexspec <score|error> <n> <order, comma separated> | <ind> …`: the Spec of lexicase
    filtering for that case order. Reply `surv <i,j,…> nondominated <i,j,…>`: the survivors and the
    individuals not Pareto-dominated on the cases `0..n`. -/
def handleSpec (args : List String) : String :=
  match args with
  | pol :: n :: order :: "|" :: indToks =>
    match n.toNat?, (if order == "-" then some [] else parseNatList? order), indToks.mapM parseInd with
    | some n, some order, some pop =>
      let hb := pol == "score"
      let all := List.range pop.length
      let surv := survivors hb pop order all
      let nd := all.filter fun i => !(all.any fun j => dominates hb pop n j i)
      s!"surv {showNatList surv} nondominated {showNatList nd}"
    | _, _, _ => "bad-request"
  | _ => "bad-request"

end Driver.SelFam
