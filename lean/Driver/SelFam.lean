/- Driver family `sel`: selectors on a population (C06, C07, …). -/
import Uec.Model.Select
import Driver.RandIO
namespace Driver.SelFam
open Uec Driver

/-- individual token: `<key>:<r1>,<r2>,…` -/
def parseInd (tok : String) : Option Ind :=
  match tok.splitOn ":" with
  | [k, rs] => do
    let key ← parseInt? k
    let results ← parseIntList? rs
    pure { key, results }
  | _ => none

def parseSel : List String → Option Sel
  | ["best"] => some .best
  | ["worst"] => some .worst
  | ["random"] => some .random
  | ["tournament", k] => k.toNat?.map .tournament
  | _ => none

def showErr : SelErr → String
  | .emptyPopulation => "EmptyPopulation"
  | .tournamentSize k n => s!"TournamentSize({k},{n})"

/-- request: `sel <score|error> <selector tokens…> | <ind> <ind> …`; reply `ok <index>` / `err <e>` -/
def handle (stdin stdout : IO.FS.Stream) (args : List String) : IO String := do
  match args with
  | pol :: rest =>
    let selToks := rest.takeWhile (· ≠ "|")
    let indToks := (rest.dropWhile (· ≠ "|")).drop 1
    match parseSel selToks, indToks.mapM parseInd with
    | some sel, some pop =>
      let r ← runIO stdin stdout (sel.select (pol == "score") pop)
      match r with
      | .ok i => pure s!"ok {i}"
      | .error e => pure s!"err {showErr e}"
    | _, _ => pure "bad-request"
  | _ => pure "bad-request"

end Driver.SelFam
