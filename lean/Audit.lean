/-
  Audit of a property module: `lake env lean --run Audit.lean Uec.Props.C04`
  loads the compiled module, lists every theorem declared in the namespace of the same
  name together with the axioms its proof depends on (transitively), as one JSON object.
-/
import Lean
open Lean

instance : MonadEnv (StateM Environment) where
  getEnv := get
  modifyEnv f := modify f

def jsonStr (s : String) : String := (Json.str s).compress

def main (args : List String) : IO UInt32 := do
  let modStr := args.head!
  let modName := modStr.toName
  initSearchPath (← findSysroot)
  let env ← importModules #[{ module := modName }] {} (trustLevel := 1024)
  let mut items : Array String := #[]
  let some modIdx := env.getModuleIdx? modName | throw (IO.userError "module not found")
  let names := env.header.moduleData[modIdx.toNat]!.constNames
  let mut nThm := 0
  let mut nEx := 0
  for n in names do
    match env.find? n with
    | some (.thmInfo _) =>
      if n.isInternal then continue
      -- skip compiler-generated equation lemmas and structure projections: not obligations
      let last := match n with | .str _ s => s | _ => ""
      if last.startsWith "eq_" || last == "induct" || last == "induct_unfolding" || last == "fun_cases"
          || last == "sizeOf_spec" || last == "injEq" || last == "inj" || last == "noConfusion"
          || (env.isProjectionFn n) then continue
      let isExample := (n.toString.splitOn "_example").length > 1
      let (axArr, _) := (collectAxioms (m := StateM Environment) n).run env
      let axs := axArr.toList.map (fun a => jsonStr a.toString)
      if modName.isPrefixOf n then
        nThm := nThm + 1
        items := items.push s!"\{\"name\":{jsonStr n.toString},\"axioms\":[{", ".intercalate axs}]}"
      else if isExample then
        nEx := nEx + 1
    | _ => pure ()
  IO.println s!"\{\"module\":{jsonStr modStr},\"theorems\":[{",".intercalate items.toList}],\"count\":{nThm}}"
  return 0
