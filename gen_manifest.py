#!/usr/bin/env python3
"""Regenerates MANIFEST.json from props_table.py and manifest_meta.py (so it is always valid)."""
import json, os, sys
ROOT = os.path.dirname(os.path.abspath(__file__))
sys.path.insert(0, ROOT)
from props_table import PROPS
from manifest_meta import META, NOT_YET, FIX_COMMITS

all_ids = [json.loads(l)["id"] for l in open(os.path.join(ROOT, "properties.jsonl"))]
checks = []
for pid in all_ids:
    if pid not in PROPS: continue
    m = META[pid]
    checks.append({
        "property_id": pid,
        "quick_cmd": f"./check {pid} --tier quick",
        "thorough_cmd": f"./check {pid} --tier thorough",
        "evidence_file": f"/verif/evidence/{pid}.json",
        "replay_cmd_template": f"./check {pid} --replay {{path}}",
        "engine": "lean-proofs+correspondence",
        "level_claimed": {"category": "proof", "text": m["level_text"], "design_ref": m.get("design_ref", "DESIGN.md §8 " + pid)},
        "level_note": m["level_note"],
        "technique": m["technique"],
    })
na = [{"property_id": pid, "reason": NOT_YET.get(pid, "check not built yet in this session; planned as in DESIGN.md §8")} for pid in all_ids if pid not in PROPS]
manifest = {
    "version": 1,
    "setup_cmd": "./setup",
    "hooks": {
        "guard": "uec_verif",
        "enable": "RUSTFLAGS=\"--cfg uec_verif\" (set by ./check and ./setup when building the harness against /repo, and by the harness for the C19 probe crates); the only hook is packages/push/src/push_vm/verif_mini_state.rs (a second state struct with the push_state macro applied, one of its stacks renamed with builder_name), everything else is reached through public API",
        "baseline_off_cmd": "cd /repo && cargo test --workspace --no-fail-fast --offline",
        "source_commits": ["11685a0", "655e8dc", "8830379"],
        "add_only": True,
    },
    "engines": [
        {"name": "lean-proofs", "path": "/verif/lean", "serves_properties": [c["property_id"] for c in checks],
         "kind_free_text": "Lean 4 library Uec: hand-written code-shaped Impl models, Specs, and theorems (Uec/Props/Cxx.lean); axiom audit (Audit.lean)"},
        {"name": "correspondence", "path": "/verif/harness", "serves_properties": [c["property_id"] for c in checks],
         "kind_free_text": "Rust harness calling /repo's crates in-process + compiled Lean driver (lean/Driver) over a line protocol; differential comparison, property oracles, seeded generators"},
    ],
    "checks": checks,
    "not_applicable": na,
    "notes": "Genuine defects repaired in /repo by unguarded fix: commits: " + ", ".join(FIX_COMMITS) + ". See known_findings.json and DESIGN.md §9. /repo commits 7ab560e and a592830 cancel each other (a harmless-rewrite trial of the verification tooling that was left in the working tree, and its revert; DESIGN.md §19): no source line differs from 8830379. The harness is built without rustc's incremental cache, and ./setup and ./check rebuild from clean when existing build output is unusable (DESIGN.md §19).",
}
json.dump(manifest, open(os.path.join(ROOT, "MANIFEST.json"), "w"), indent=1)
print("checks:", [c["property_id"] for c in checks], "not claimed:", [n["property_id"] for n in na])
