"""Texts for MANIFEST.json, per claimed property."""
FIX_COMMITS = ["e4b0578 (C04, Stack::push on an over-full stack)"]
NOT_YET = {}
COMMON_NOTE = ("Trusted: Lean 4.33.0 kernel; axioms at most propext/Classical.choice/Quot.sound (audited each run); "
               "the hand-written Impl model is tied to /repo only by the correspondence check (real Rust vs compiled Lean model on generated and enumerated cases) - "
               "assurance is the weaker of theorem-for-all-inputs and agreement-on-what-was-explored; rustc/std not modelled.")
META = {
    "C04": {
        "level_text": "Machine-checked Lean theorems about a code-shaped model of Stack<T>: refinement to a list spec for operation histories of any length (history), atomicity of every failing operation incl. try_extend (atomic), capacity after any history (capacity), underflow payloads and insertion order. The model is tied to the Rust by replaying exhaustive short and seeded random histories on the real Stack<i64>/Stack<String> and comparing every output and the final contents with the compiled model.",
        "level_note": COMMON_NOTE + " Vec is assumed to behave as a list.",
        "technique": "Lean 4 refinement proof by induction over histories + differential correspondence check against the real Stack",
    },
}
