"""Global texts for MANIFEST.json (per-property texts live in props/Cxx.py)."""
from props_table import META  # noqa: F401
FIX_COMMITS = ["e4b0578 (C04 Stack::push on an over-full stack)", "fef35a5 (C01 IsOdd on negative numbers)",
               "b980257 (C01 binary comparisons consume both operands)", "de29cc6 (C10 TwoPointXo cut points 0..=len)",
               "6b59011 (C10 Bitstring::crossover_segment out-of-range)",
               "1ed1c15 (C12 with_uniform_close_probability panicked under debug assertions for > 2^24 choices)"]
NOT_YET = {}
